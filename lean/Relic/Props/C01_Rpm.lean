/-
  C01 — Every signature relic produces verifies.   RPM part (model `Relic.Model.Rpm`).
  `sign` inserts a header-only packet (tag 268, made over the general header bytes) and a header+payload packet (tag 1002, made
  over everything behind the signature header) and removes the legacy slots 267 / 1005; `verify` checks the packet of slot 268 /
  267 against the general header bytes and that of slot 1002 / 1005 against general header ++ payload.
-/
import Relic.Props.C03_Rpm
namespace Relic.Props.C01
open Relic Relic.Rpm

/-- tags other than RESERVEDSPACE are not touched by `DumpSignatureHeader(true)` -/
theorem get_withReserved (s : Hdr) (t : Int) (h : t ≠ tagReserved) : get t (withReserved s) = get t s.ents := by
  unfold withReserved
  simp only
  split
  · rw [get_ins_other _ _ _ _ h, get_del_other _ _ _ h]
  · rw [get_del_other _ _ _ h]

/-- **rpm_signed_slots.** After `SignRpmStream` + `DumpSignatureHeader(true)`, whatever the signature header held before: slot 268
    holds the packet made over the general header, slot 1002 the packet made over general header ++ payload, the legacy slots
    267 / 1005 are empty, every other tag (digests included) is as it was found. -/
theorem rpm_signed_slots (mk : Bool → Bytes → Bytes) (p : Parsed) :
    let m := withReserved (signedSig mk p)
    get tagRSA m = some ⟨7, (mk true p.gen.orig).length, mk true p.gen.orig⟩ ∧
    get tagPGP m = some ⟨7, (mk false (p.gen.orig ++ p.payload)).length, mk false (p.gen.orig ++ p.payload)⟩ ∧
    get tagDSA m = none ∧ get tagGPG m = none ∧
    ∀ t, t ≠ tagRSA → t ≠ tagPGP → t ≠ tagDSA → t ≠ tagGPG → t ≠ tagReserved → get t m = get t p.sig.ents := by
  intro m
  have e : ∀ t, t ≠ tagReserved → get t m = get t (insertSigs p.sig.ents (mk false (p.gen.orig ++ p.payload)) (mk true p.gen.orig)) := by
    intro t h; exact get_withReserved _ t h
  refine ⟨?_, ?_, ?_, ?_, ?_⟩
  · rw [e _ (by decide)]; unfold insertSigs
    rw [get_del_other _ _ _ (by decide), get_del_other _ _ _ (by decide), get_ins_same]
  · rw [e _ (by decide)]; unfold insertSigs
    rw [get_del_other _ _ _ (by decide), get_del_other _ _ _ (by decide), get_ins_other _ _ _ _ (by decide), get_ins_same]
  · rw [e _ (by decide)]; unfold insertSigs
    rw [get_del_same]
  · rw [e _ (by decide)]; unfold insertSigs
    rw [get_del_other _ _ _ (by decide), get_del_same]
  · intro t h1 h2 h3 h4 h5
    rw [e _ h5]; unfold insertSigs
    rw [get_del_other _ _ _ h3, get_del_other _ _ _ h4, get_ins_other _ _ _ _ h1, get_ins_other _ _ _ _ h2]

/-- `digestPayload` looks at the signature header through tag 1004 only -/
theorem digestPayload_congr (H : Nat → Bytes → Bytes) (m1 m2 : EMap) (g : Hdr) (pl : Bytes)
    (h : get tagMD5 m1 = get tagMD5 m2) : digestPayload H m1 g pl = digestPayload H m2 g pl := by
  unfold digestPayload getBytes
  rw [h]

/-- the header round trip, as far as the verifier depends on it: the tags read back from the rewritten signature header are
    the tags that were written (the region entry 62, which `WriteTo` regenerates, aside) -/
def ReadsBack (m' m : EMap) : Prop := ∀ t, t ≠ tagRegionSig → get t m' = get t m

/-- **rpm_sign_then_verify** (`_partial`: relative to `ReadsBack`, i.e. to `rpm_header_roundtrip` for the header just written —
    executed on every `rt` / `hist` op and proved outright for the witness below).  For every package on which `sign` got as
    far as inserting signatures (both headers read, payload digest or legacy MD5 matched, NEVRA formatted), every signature
    scheme `mk` / `pgp` / `valid` in which a packet made over a stream parses to (key id, hash) and verifies over that
    stream, and every keyring containing the key id: relic's `verify` accepts the general header and payload under the new
    signature header, reports exactly ONE signature (the two packets collapse by key id), by the signing key, with the
    requested hash, and the package name `sign` put into the audit record. -/
theorem rpm_sign_then_verify_partial (H : Nat → Bytes → Bytes) (mk : Bool → Bytes → Bytes) (pgp : Bytes → Res SigInfo)
    (valid : Bytes → Bytes → Bool) (ks : List Nat) (noChain : Bool) (p : Parsed) (nv : Bytes) (kid alg : Nat) (sig' : Hdr)
    (hd : digestPayload H p.sig.ents p.gen p.payload = .ok ())
    (hn : nevraOf p.gen.ents = .ok nv)
    (hp : ∀ b s, pgp (mk b s) = .ok ⟨kid, alg⟩) (hv : ∀ b s, valid (mk b s) s = true) (hk : ks.contains kid = true)
    (hrt : ReadsBack sig'.ents (withReserved (signedSig mk p))) :
    verifyCore H pgp valid (some ks) noChain sig' p.gen p.payload = .ok ⟨[(kid, alg)], nv⟩ := by
  obtain ⟨s1, s2, s3, s4, s5⟩ := rpm_signed_slots mk p
  have g1 := (hrt tagRSA (by decide)).trans s1
  have g2 := (hrt tagPGP (by decide)).trans s2
  have g3 := (hrt tagDSA (by decide)).trans s3
  have g4 := (hrt tagGPG (by decide)).trans s4
  have g5 : get tagMD5 sig'.ents = get tagMD5 p.sig.ents :=
    (hrt tagMD5 (by decide)).trans (s5 tagMD5 (by decide) (by decide) (by decide) (by decide) (by decide))
  have hd' : digestPayload H sig'.ents p.gen p.payload = .ok () := by
    rw [digestPayload_congr H _ _ _ _ g5]; exact hd
  have hk' : kid ∈ ks := by simpa using hk
  unfold verifyCore verifyCoreWith libVerifyCore
  simp [collect, g1, g2, g3, g4, hp, hd', validateAll, hk', hv, hn, dedupe]

/-- the hypotheses are satisfiable: a transparent scheme (the "packet" is the stream itself) -/
example : (∀ (b : Bool) (s : Bytes), (fun (_ : Bytes) => (Res.ok ⟨7, 8⟩ : Res SigInfo)) ((fun (_ : Bool) (s : Bytes) => s) b s) = .ok ⟨7, 8⟩) ∧
    (∀ (b : Bool) (s : Bytes), (fun (x y : Bytes) => x == y) ((fun (_ : Bool) (s : Bytes) => s) b s) s = true) ∧
    [7, 9].contains 7 = true := by
  refine ⟨fun _ _ => rfl, fun _ s => by simp, by decide⟩

/-- the full statement: sign-then-verify from file to file, with the header round trip discharged for every tag map -/
def rpm_sign_then_verify_full : Prop :=
  ∀ (H : Nat → Bytes → Bytes) (mk : Bool → Bytes → Bytes) (pgp : Bytes → Res SigInfo) (valid : Bytes → Bytes → Bool) (ks : List Nat)
    (f : Bytes) (o : SignOut) (kid alg : Nat),
    sign H mk f = .ok o → (∀ b s, pgp (mk b s) = .ok ⟨kid, alg⟩) → (∀ b s, valid (mk b s) s = true) → ks.contains kid = true →
    verify H pgp valid (some ks) true (signedFile f o) = .ok ⟨[(kid, alg)], o.nevra⟩

/-- `rpm_header_roundtrip`, full form: what `readHeader` makes of `writeTo m` is `m` plus the region entry, for every map whose
    entries are well-formed (contents of `typeSize * count` bytes resp. `count` NUL-terminated strings; tags and offsets in int32) -/
def rpm_header_roundtrip_full : Prop :=
  ∀ (H : Nat → Bytes → Bytes) (m : EMap) (rest : Bytes),
    (∀ e ∈ kept m, match typeSize e.2.typ with
      | some ts => e.2.contents.length = ts * e.2.count.toNat ∧ 0 ≤ e.2.count
      | none => skipStrs e.2.count.toNat e.2.contents = some [] ∧ 0 ≤ e.2.count) →
    (writeTo m).length < 2147483648 →
    ∃ h, readHeader H true none (writeTo m ++ rest) = .ok (h, rest) ∧ h.orig = writeTo m ∧ ReadsBack h.ents (kept m)

set_option maxRecDepth 1000000 in
/-- **rpm_header_roundtrip** (`_partial`: a concrete header with a string digest, an aligned INT32, two BIN packets and reserved
    space; the general statement is `rpm_header_roundtrip_full`).  Dumping the map and reading it back returns every tag. -/
theorem rpm_header_roundtrip_partial :
    let m : EMap := [(268, ⟨7, 3, [1, 2, 3]⟩), (269, ⟨6, 1, [97, 98, 0]⟩), (1000, ⟨4, 1, [0, 0, 1, 0]⟩), (1002, ⟨7, 2, [9, 9]⟩),
      (1008, ⟨7, 5, [0, 0, 0, 0, 0]⟩)]
    (match readHeader (fun _ _ => []) true none (writeTo m ++ [0x8e, 0xad]) with
      | .ok (h, rest) => rest == [0x8e, 0xad] && h.orig == writeTo m &&
          [268, 269, 1000, 1002, 1008].all (fun t => get t h.ents == get t m) && get 62 h.ents != none
      | _ => false) = true ∧ (writeTo m).length % 8 = 0 := by
  decide

end Relic.Props.C01

/-
  C18 (fragment) — the comdoc writer at FILE-BYTE level (model `Relic.Model.CfbBytes`: the file is header + sectors;
  `openFile`, `addStream` data placement with zero padding, `writeShortSector` inside the mini-stream container,
  `AddFile` / `DeleteFile`, `Close` = `writeShortSAT`, `rebuildTree` + `writeDirStream`, `allocSectorTables`,
  `writeSAT`, `writeMSAT`, header rewrite, `Truncate`).  Tied to lib/comdoc byte for byte (`C18 wb` ops).

  Proved here, for every state that satisfies the invariant `Inv` (live chains valid and pairwise disjoint, FAT / DIFAT
  sectors marked and listed once, mini sectors of live short streams inside the container, sectors all of the sector size):
    * `write_sector_frame`, `stream_content_placed`, `short_stream_content_placed` (staging 1: what a write changes)
    * `bytes_refine_tables` (the table component of the byte model IS the table model `Relic.Model.CfbWriter`)
    * `streams_preserved` (staging 2: any history of AddFile / DeleteFile followed by Close keeps, for every stream the
      history does not name, the slot, the name / class id / state bits / time stamps, and the bytes it reads back as)
    * `added_stream_reads_back` (the stream an AddFile stored reads back as the contents)
    * `tables_roundtrip` (staging 3/4, sector level: the sectors Close wrote hold the serialised FAT, DIFAT, mini-FAT,
      directory and header of the final state; counts = lengths) and its lift to the SPEC's reader functions
      `Spec.Cfb.walk` / `Spec.Cfb.sectorBytes` / `Cfb.u32s?` on the bytes of the file (`fat_parses_back`, `difat_parses_back`,
      `chain_walks_back`); `close_directory_tree` (what Close writes for the root storage is the tree of `rb_insert_valid`)
  NOT proved (`add_preserves_valid_full` stays open, narrowed): (a) `Spec.Cfb.validate buf = .ok _ → Inv (openFile buf)`
  (checked on every generated input by the executable `invB` in the driver), (b) that the facts above imply
  `Spec.Cfb.validate (bytes out) = .ok _` (the validator's own traversal: claims, counts, red-black shape of the root
  storage via `rb_insert_valid`, unchanged sub-storages).
-/
import Relic.Proofs.CfbBytesClose
import Relic.Proofs.CfbBytesInvB
import Relic.Proofs.CfbBytesDecode
import Relic.Spec.Cfb
import Relic.Props.C18
namespace Relic.Props.C18
open Relic Relic.CfbW Relic.CfbB Relic.Cfb

/-- **write_sector_frame.** `writeSector(s, content)` sets sector `s` to the content zero-padded to the sector size and
    changes no other sector, nor anything before sector 0. -/
theorem write_sector_frame (f f' : File) (s : Nat) (c : Bytes) (h : wSec f s c = .ok f') :
    getSec f' s = pad f.ss c ∧ (∀ t, t ≠ s → getSec f' t = getSec f t) ∧ f'.pre = f.pre ∧ f'.ss = f.ss ∧ (WF f → WF f') := by
  obtain ⟨rfl, _⟩ := wSec_ok h
  refine ⟨by rw [getSec_setSec]; simp, fun t ht => by rw [getSec_setSec]; simp [ht], by simp, by simp,
    fun hw => setSec_WF hw _ _ (pad_length _ _)⟩

example : wSec ⟨4, [9, 9, 9, 9], [[1, 1, 1, 1]]⟩ 2 [7, 8] = .ok ⟨4, [9, 9, 9, 9], [[1, 1, 1, 1], [0, 0, 0, 0], [7, 8, 0, 0]]⟩ := by
  decide

/-- **stream_content_placed.** `addStream(contents, false)`: the sectors handed out by `makeFreeSectors` are the new chain;
    read back through that chain the file holds the contents followed by zeros up to the end of the last sector; every
    other sector is untouched. -/
theorem stream_content_placed (a : Alloc) (c : Bytes) (f : File) (first : Int) (a' : Alloc) (f' : File)
    (hss : f.ss = a.ss) (h : addStreamB a c false f = .ok (first, a', f')) :
    ∃ fl, chain a'.sat first = some fl ∧ readChain f' fl = c ++ zeros (fl.length * a.ss - c.length) ∧
      (∀ t, t ∉ fl → getSec f' t = getSec f t) ∧ f'.pre = f.pre := by
  obtain ⟨_, fl, _, _, hch, hrd, hlen, hfr, _, hpre, _⟩ := addStreamB_big hss h
  refine ⟨fl, hch, ?_, hfr, hpre⟩
  rw [hrd, pad, List.take_of_length_le hlen]

/-- **short_stream_content_placed.** `addStream(contents, true)`: the mini-stream container grows at its end from `C` to
    `C ++ E`; read through the grown container the mini sectors of the new chain hold the contents followed by zeros,
    every other mini sector holds what it held, no sector outside the container changed. -/
theorem short_stream_content_placed (a : Alloc) (c : Bytes) (f : File) (first : Int) (a' : Alloc) (f' : File)
    (C : List Nat) (q : Nat) (hq : a.ss = q * a.sss) (hs : 0 < a.sss) (hfs : f.ss = a.ss) (hwf : WF f)
    (hC : Cont a.sat a.rootStart C) (h : addStreamB a c true f = .ok (first, a', f')) :
    ∃ fl E, chain a'.ssat first = some fl ∧ Cont a'.sat a'.rootStart (C ++ E) ∧
      miniData a.sss (readChain f' (C ++ E)) fl = c ++ zeros (fl.length * a.sss - c.length) ∧
      (∀ m, m ∉ fl → miniSec a.sss (readChain f' (C ++ E)) m = miniSec a.sss (readChain f (C ++ E)) m) ∧
      (∀ t, t ∉ C ++ E → getSec f' t = getSec f t) := by
  obtain ⟨_, fl, E, hch, g, _, _, _, hfr, _, _, ms, md, hlen⟩ := addStreamB_short hq hs hfs hwf hC h
  refine ⟨fl, E, hch, g.cont, ?_, ms, hfr⟩
  rw [md, pad, List.take_of_length_le hlen]

example : addStreamB ⟨8, 4, [EOC, FREE, FREE], [FREE, FREE], EOC, 0⟩ [1, 2, 3, 4, 5] true ⟨8, [0, 0, 0, 0, 0, 0, 0, 0], [[9, 9, 9, 9, 9, 9, 9, 9]]⟩ =
    .ok (0, ⟨8, 4, [EOC, EOC, FREE], [1, EOC], 1, 8⟩,
         ⟨8, [0, 0, 0, 0, 0, 0, 0, 0], [[9, 9, 9, 9, 9, 9, 9, 9], [1, 2, 3, 4, 5, 0, 0, 0]]⟩) := by decide

/-- **bytes_refine_tables.** The byte-level model refines the table model that is tied to lib/comdoc entry by entry:
    the table component of `addFileB` / `deleteFileB` / `closeB` is `addFile` / `deleteFile` / `close`. -/
theorem bytes_refine_tables :
    (∀ b b' units c, addFileB b units c = .ok b' → addFile b.st (nameKey units) units.length c.length = .ok b'.st) ∧
    (∀ b b' key, deleteFileB b key = .ok b' → deleteFile b.st key = .ok b'.st) ∧
    (∀ b b', closeB b = .ok b' → close b.st = .ok b'.st) :=
  ⟨fun _ _ _ _ h => addFileB_proj h, fun _ _ _ h => (deleteFileB_proj h).1, fun _ _ h => closeB_proj h⟩

/-- **streams_preserved.** Any history of AddFile / DeleteFile (contents below 2^32 bytes) followed by Close, from a
    state satisfying `Inv`: every slot that is not a root-level entry carrying one of the names used keeps its record
    (type, name class, start, size), its raw entry keeps name, class id, state bits and time stamps, and – for a stream –
    the bytes read back through the tables of the final state from the final file are the bytes read back before. -/
theorem streams_preserved (b b1 b2 : BSt) (ops : List Op) (inv : Inv b) (hok : ∀ op ∈ ops, opOk op)
    (hrun : run b ops = .ok b1) (hch : b1.st.changed = true) (hclose : closeB b1 = .ok b2) :
    ∀ (i : Nat) (sl : Slot), b.st.files[i]? = some sl → sl.typ ≠ 0 →
      (∀ op ∈ ops, ¬ (i ∈ b.st.rootFiles ∧ sl.key = opKey op)) →
      b2.st.files[i]? = some sl ∧ metaEq (b.ents.getD i zeroEntry) (b2.ents.getD i zeroEntry) ∧
      (sl.typ = 2 → slotData b2 i = slotData b i) := by
  obtain ⟨inv1, keep⟩ := run_spec ops b b1 inv hok hrun
  obtain ⟨c1, _, c3, c4⟩ := closeB_streams inv1 hch hclose
  intro i sl hi hty hn
  obtain ⟨p1, p2, p3, _⟩ := keep i sl hi hty hn
  refine ⟨by rw [c1]; exact p1, ?_, fun ht => (c4 i sl p1 ht).trans (p3 ht)⟩
  have : b1.ents.getD i zeroEntry = b.ents.getD i zeroEntry := by
    simp only [List.getD_eq_getElem?_getD, p2]
  rw [← this]; exact c3 i

/-- **added_stream_reads_back.** The stream stored by an `AddFile` that no later step of the history names reads back,
    after Close, as exactly the contents given. -/
theorem added_stream_reads_back (b b0 b1 b2 : BSt) (name : List Nat) (data : Bytes) (post : List Op) (inv : Inv b)
    (hlen : data.length < 4294967296) (hadd : addFileB b name data = .ok b0)
    (hok : ∀ op ∈ post, opOk op) (hpost : ∀ op ∈ post, opKey op ≠ nameKey name)
    (hrun : run b0 post = .ok b1) (hch : b1.st.changed = true) (hclose : closeB b1 = .ok b2) :
    ∃ j first, b2.st.files[j]? = some ⟨2, nameKey name, first, data.length⟩ ∧ slotData b2 j = some data ∧
      metaEq (newEntry name) (b2.ents.getD j zeroEntry) := by
  obtain ⟨inv0, _, j, first, s1, s2, s3, _⟩ := addFileB_step inv hlen hadd
  have sp := streams_preserved b0 b1 b2 post inv0 hok hrun hch hclose j _ s1 (by simp)
    (fun op ho hc => hpost op ho hc.2.symm)
  refine ⟨j, first, sp.1, (sp.2.2 rfl).trans s3, ?_⟩
  have : b0.ents.getD j zeroEntry = newEntry name := by simp [List.getD_eq_getElem?_getD, s2]
  rw [← this]; exact sp.2.1

/-- **tables_roundtrip** (sector level).  After Close the file holds, in the sectors named by the final tables, the
    serialisation of those tables: block `j` of the FAT in FAT sector `j`, the DIFAT blocks with their next pointers in the
    DIFAT sectors, block `j` of the mini-FAT in the `j`-th sector of the mini-FAT chain, block `j` of the directory in the
    `j`-th sector of the directory chain, the header fields in the first 512 bytes; the header counts are the lengths of
    the lists; the FAT / DIFAT sectors are marked as such in the FAT and listed once; all live chains stay valid and
    pairwise disjoint; the file ends after the last sector in use. -/
theorem tables_roundtrip (b b' : BSt) (inv : Inv b) (hch : b.st.changed = true) (h : closeB b = .ok b') : Closed b b' :=
  closeB_spec inv hch h

/-- **inv_checkable.** The invariant the theorems above assume is implied by the executable check `invB`, which the
    driver evaluates on the state `openFile` builds from every generated input. -/
theorem inv_checkable (b : BSt) (h : invB b = true) : Inv b := invB_sound b h

/-- a small state: 512-byte sectors, directory in sector 0, mini-FAT in 1, container in 2, FAT sector 3; one short
    stream of 100 bytes in mini sectors 0, 1 -/
def exampleState : BSt :=
  { st := { a := { ss := 512, sss := 64, sat := [EOC, EOC, EOC, FATSECT], ssat := [1, EOC], rootStart := 2, rootSize := 128 }
            cutoff := 4096, version := 3, files := [⟨5, 1, 0, 0⟩, ⟨2, 7, 0, 100⟩], root := 0, rootFiles := [1], changed := false
            dirStart := 0, dirCount := 0, ssatStart := 1, ssatCount := 1, msat := [3], msatList := []
            satSectors := 1, msatCount := 0, msatNext := EOC, fileSectors := 0 }
    ents := [zeroEntry, zeroEntry]
    file := { ss := 512, pre := List.replicate 512 0, secs := List.replicate 4 (List.replicate 512 0) } }

set_option maxRecDepth 100000 in
example : Inv exampleState := inv_checkable _ (by decide)

/-- **session_streams_preserved.** The same from file bytes: open, any history, Close. -/
theorem session_streams_preserved (buf : Buf) (ops : List Op) (b b1 b2 : BSt) (hopen : openFile buf = .ok b)
    (hinv : invB b = true) (hok : ∀ op ∈ ops, opOk op) (hrun : run b ops = .ok b1) (hch : b1.st.changed = true)
    (hclose : closeB b1 = .ok b2) :
    session buf ops = .ok (bytes b2.file) ∧
    ∀ (i : Nat) (sl : Slot), b.st.files[i]? = some sl → sl.typ ≠ 0 →
      (∀ op ∈ ops, ¬ (i ∈ b.st.rootFiles ∧ sl.key = opKey op)) →
      b2.st.files[i]? = some sl ∧ metaEq (b.ents.getD i zeroEntry) (b2.ents.getD i zeroEntry) ∧
      (sl.typ = 2 → slotData b2 i = slotData b i) := by
  refine ⟨by simp [session, hopen, hrun, hclose, hch], ?_⟩
  exact streams_preserved b b1 b2 ops (invB_sound b hinv) hok hrun hch hclose

/-- a sector whose FAT entry is in use lies inside the file Close leaves -/
theorem used_sector_in_file {b b' : BSt} (cl : Closed b b') {x : Nat} {v : Int} (hx : b'.st.a.sat[x]? = some v)
    (hv : v ≠ FREE) : x < b'.file.secs.length := by
  have := lastUsed_spec _ x v hx hv
  rw [cl.len (by omega)]; exact this

/-- **fat_parses_back.** After Close the SPEC's reader (`Cfb.u32s?` on the bytes of the file at the offset of the
    sector) reads from the `j`-th FAT sector block `j` of the final FAT, and from the `j`-th sector of the mini-FAT chain
    block `j` of the mini-FAT (entries as uint32: `enc32`). -/
theorem fat_parses_back (b b' : BSt) (inv : Inv b) (hch : b.st.changed = true) (h : closeB b = .ok b')
    (h4 : b.st.a.ss % 4 = 0) :
    (∀ (j : Nat) (s : Int), b'.st.msat[j]? = some s →
      u32s? (bytes b'.file).toArray (sectorOffset b.st.a.ss s.toNat) (b.st.a.ss / 4) =
        some (((b'.st.a.sat.drop (j * (b.st.a.ss / 4))).take (b.st.a.ss / 4)).map enc32)) ∧
    (∃ lS, chain b'.st.a.sat b'.st.ssatStart = some lS ∧ ∀ (j x : Nat), lS[j]? = some x →
      u32s? (bytes b'.file).toArray (sectorOffset b.st.a.ss x) (b.st.a.ss / 4) =
        some (((b.st.a.ssat.drop (j * (b.st.a.ss / 4))).take (b.st.a.ss / 4)).map enc32)) := by
  have cl := closeB_spec inv hch h
  have hfss : b'.file.ss = b.st.a.ss := cl.fss.trans cl.ss
  refine ⟨?_, ?_⟩
  · intro j s hs
    obtain ⟨hj, hsj⟩ := List.getElem?_eq_some_iff.mp hs
    obtain ⟨p, v, hv, hv'⟩ := cl.marks.marked s (List.mem_append_left _ (List.mem_of_getElem? hs))
    have hin := used_sector_in_file cl hv (by omega)
    have hsec := cl.fat.2 j s hs
    have hlen : ((b'.st.a.sat.drop (j * (b.st.a.ss / 4))).take (b.st.a.ss / 4)).length = b'.file.ss / 4 := by
      have h1 := cl.fat.1
      have h2 : (j + 1) * (b.st.a.ss / 4) ≤ b'.st.msat.length * (b.st.a.ss / 4) := Nat.mul_le_mul_right _ hj
      rw [Nat.add_mul] at h2
      rw [List.length_take, List.length_drop, hfss]; omega
    have := sector_parses_back cl.wf hin hlen (by rw [hfss]; exact h4) (by rw [hfss]; exact hsec)
    rw [hfss] at this; exact this
  · obtain ⟨lS, c1, c2, _, c4⟩ := cl.miniFat
    refine ⟨lS, c1, ?_⟩
    intro j x hx
    obtain ⟨hj, hxj⟩ := List.getElem?_eq_some_iff.mp hx
    obtain ⟨v, hv, hv'⟩ := (chain_iff.mp c1).entry x (List.mem_of_getElem? hx)
    have hin := used_sector_in_file cl hv (by omega)
    have hsec := c4 j x hx
    have hlen : ((b.st.a.ssat.drop (j * (b.st.a.ss / 4))).take (b.st.a.ss / 4)).length = b'.file.ss / 4 := by
      rw [c2] at hj
      have hpos : 0 < b.st.a.ss / 4 := by
        rcases Nat.eq_zero_or_pos (b.st.a.ss / 4) with h0 | h0
        · rw [h0, Nat.div_zero] at hj; omega
        · exact h0
      have h2 : (j + 1) * (b.st.a.ss / 4) ≤ (b.st.a.ssat.length / (b.st.a.ss / 4)) * (b.st.a.ss / 4) :=
        Nat.mul_le_mul_right _ hj
      have h3 := Nat.div_mul_le_self b.st.a.ssat.length (b.st.a.ss / 4)
      rw [Nat.add_mul] at h2
      rw [List.length_take, List.length_drop, hfss]; omega
    have := sector_parses_back cl.wf hin hlen (by rw [hfss]; exact h4) (by rw [hfss]; exact hsec)
    rw [hfss] at this; exact this

/-- **difat_parses_back.** The `j`-th DIFAT sector parses back (`Cfb.u32s?`) to the `j`-th block of FAT sector numbers
    beyond the 109 header slots, unused slots FREESECT, followed by the number of the next DIFAT sector (ENDOFCHAIN in the
    last one). -/
theorem difat_parses_back (b b' : BSt) (inv : Inv b) (hch : b.st.changed = true) (h : closeB b = .ok b')
    (h4 : b.st.a.ss % 4 = 0) (hspb : 1 ≤ b.st.a.ss / 4) :
    ∀ (j : Nat) (s : Int), b'.st.msatList[j]? = some s →
      u32s? (bytes b'.file).toArray (sectorOffset b.st.a.ss s.toNat) (b.st.a.ss / 4) =
        some (((((msatPadded (b.st.a.ss / 4) b'.st.msat b'.st.msatList).drop 109).drop (j * (b.st.a.ss / 4 - 1))).take
          (b.st.a.ss / 4 - 1) ++ [(b'.st.msatList.drop (j + 1)).headD EOC]).map enc32) := by
  have cl := closeB_spec inv hch h
  have hfss : b'.file.ss = b.st.a.ss := cl.fss.trans cl.ss
  intro j s hs
  obtain ⟨hj, hsj⟩ := List.getElem?_eq_some_iff.mp hs
  obtain ⟨p, v, hv, hv'⟩ := cl.marks.marked s (List.mem_append_right _ (List.mem_of_getElem? hs))
  have hin := used_sector_in_file cl hv (by omega)
  have hsec := cl.difat j s hs
  have hlen : ((((msatPadded (b.st.a.ss / 4) b'.st.msat b'.st.msatList).drop 109).drop (j * (b.st.a.ss / 4 - 1))).take
      (b.st.a.ss / 4 - 1) ++ [(b'.st.msatList.drop (j + 1)).headD EOC]).length = b'.file.ss / 4 := by
    have h2 : (j + 1) * (b.st.a.ss / 4 - 1) ≤ b'.st.msatList.length * (b.st.a.ss / 4 - 1) := Nat.mul_le_mul_right _ hj
    rw [Nat.add_mul] at h2
    simp only [msatPadded, List.length_append, List.length_take, List.length_drop, List.length_replicate,
      List.length_cons, List.length_nil, hfss]
    omega
  have := sector_parses_back cl.wf hin hlen (by rw [hfss]; exact h4) (by rw [hfss]; exact hsec)
  rw [hfss] at this; exact this

/-- **chain_walks_back.** On the FAT as the reader holds it (`uint32` entries), the SPEC's chain walk `Spec.Cfb.walk`
    returns the model's chain, and the SPEC's `sectorBytes` along it are the model's `readChain` – so what `slotData`
    says about a regular stream is what `Spec.Cfb.readStream` extracts from the bytes (tables shorter than 2^31). -/
theorem chain_walks_back (f : File) (hwf : WF f) (sat : List Int) (h : Int) (l : List Nat) (limit : Nat)
    (hc : chain sat h = some l) (hlim : limit ≤ 2147483648) (hb : ∀ x ∈ l, x < limit) (hin : ∀ x ∈ l, x < f.secs.length) :
    Relic.Spec.Cfb.walk (sat.map enc32).toArray limit "stream" (limit + 1) (enc32 h) [] = .ok l ∧
    l.flatMap (fun s => ((bytes f).toArray.extract (sectorOffset f.ss s) (sectorOffset f.ss s + f.ss)).toList) =
      readChain f l := by
  have hc' := chain_iff.mp hc
  have hlen : l.length ≤ limit + 1 := by
    have := nodup_length_le limit l hc'.nodup hb
    omega
  refine ⟨by simpa using walk_of_chain sat limit "stream" hlim l h (limit + 1) [] hc' hb hlen, ?_⟩
  unfold readChain
  induction l with
  | nil => rfl
  | cons x l ih =>
    simp only [List.flatMap_cons]
    rw [extract_sector hwf (hin x List.mem_cons_self)]
    congr 1
    have hcl : ∀ y ∈ l, y < f.secs.length := fun y hy => hin y (List.mem_cons_of_mem _ hy)
    clear ih hlen hc hc' hb
    induction l with
    | nil => rfl
    | cons y l ih2 =>
      simp only [List.flatMap_cons]
      rw [extract_sector hwf (hcl y List.mem_cons_self), ih2 (fun z hz => hin z (by
        rcases List.mem_cons.mp hz with rfl | hz
        · exact List.mem_cons_self
        · exact List.mem_cons_of_mem _ (List.mem_cons_of_mem _ hz))) (fun z hz => hcl z (List.mem_cons_of_mem _ hz))]

example : Relic.Spec.Cfb.walk ([1, 3, EOC, EOC].map enc32).toArray 4 "stream" 5 (enc32 0) [] = .ok [0, 1, 3] := by rfl

/-- **close_directory_tree.** What Close writes for the root storage: the raw entries are `rebuildTree` of the entries in
    memory, i.e. colours and links of the red-black tree obtained by inserting the root-level entries in `rootFiles` order
    with lib/redblack's insert under `lessDirEnt`; when those entries are pairwise comparable (distinct names) that tree
    is a valid red-black search tree holding exactly them (`rb_insert_valid`). -/
theorem close_directory_tree (b b' : BSt) (inv : Inv b) (hch : b.st.changed = true) (h : closeB b = .ok b')
    (hk : KeysOrdered (fun i j => lessEnt (b.ents.getD i zeroEntry) (b.ents.getD j zeroEntry)) b.st.rootFiles) :
    b'.ents = rebuildTree b.ents b.st.root b.st.rootFiles ∧
    RedBlack.validB (fun i j => lessEnt (b.ents.getD i zeroEntry) (b.ents.getD j zeroEntry))
      (RedBlack.insertAll (fun i j => lessEnt (b.ents.getD i zeroEntry) (b.ents.getD j zeroEntry)) true true .nil b.st.rootFiles) = true ∧
    (RedBlack.toList (RedBlack.insertAll (fun i j => lessEnt (b.ents.getD i zeroEntry) (b.ents.getD j zeroEntry)) true true
      .nil b.st.rootFiles)).Perm b.st.rootFiles := by
  have cl := closeB_spec inv hch h
  obtain ⟨_, _, hp, hv⟩ := rb_insert_valid _ b.st.rootFiles hk
  exact ⟨cl.ents, hv, hp⟩

/-- the statement that stays open at byte level, narrowed to its two remaining halves -/
def inv_of_valid_full : Prop :=
  ∀ (buf : Buf) (p : Relic.Spec.Cfb.Parsed) (b : BSt), Relic.Spec.Cfb.validate buf = .ok p → openFile buf = .ok b → invB b = true

def valid_of_closed_full : Prop :=
  ∀ (buf : Buf) (ops : List Op) (out : Bytes), Relic.Spec.Cfb.validB buf = true → session buf ops = .ok out →
    Relic.Spec.Cfb.validB out.toArray = true

end Relic.Props.C18

/-
  C02 (APPX / MSIX packages and bundles, part level): what `signappx.Verify` protects.

  The verifier is the list of steps `verifySteps` (model `Relic.Model.AppxPkg`); `run H steps = .ok ()` is acceptance under the
  hash family `H`.  Collision-freeness is never assumed: the conclusions hold *or an explicit collision of `H` exists*
  (`Collision H`).

  * `appx_verify_ok_iff` — acceptance of a package = every check of `Verify`, in order;
  * `appx_member_covered_iff`, `appx_covered_members_matched` — a member is compared with a `File` element of the block map
    unless it is one of the four parts the signature lists by digest (or, in a bundle, a `*.appx` member, which carries its own
    signature);
  * `appx_tamper_evident` — two accepted packages with the same signature agree on `[Content_Types].xml` (AXCT), the block map
    (AXBM), the catalog (AXCI), the two ZIP-level streams (AXPC: every local record before the signature part; AXCD: the
    directory without it), and member by member on name (up to `/` vs `\`), size and contents of the covered members;
    corollaries in "changed ⇒ rejected" form;
  * stated gaps, each replayed on the real verifier (corpus/C02/appxv-gaps.ops): trailing `File` elements are ignored
    (`appx_blockmap_trailing_files_accepted`), the Publisher `checkManifest` reads is not the attribute a conformant reader sees
    (`appx_publisher_shadow_accepted_orig`; closed by the repair: `appx_publisher_visible_fixed`), the catalog is never compared
    with the members (`appx_catalog_unrelated_to_members`);
  * bundles: `bundle_accept_implies` (every `*.appx` member is stored, listed with its offset and size, verifies as a package
    and is signed with the same certificate), `bundle_duplicate_dosname_panics_orig` (listed finding) and
    `bundle_duplicate_dosname_refused_fixed`, `bundle_msix_members_not_verified` (members named `*.msix` are ordinary payload).
-/
import Relic.Proofs.AppxPkg
namespace Relic.Props.C02
open Relic Relic.Appx Relic.AppxPkg

/-- **appx_verify_ok_iff.** `Verify` accepts a package (no bundle manifest) iff the signature part opens, the block map, the
    catalog and the content types are present exactly when their digest is and hash to it, the covered members match the block
    map, the catalog (if any) is signed with the same certificate, the two ZIP-level streams hash to AXPC and AXCD, and the
    Publisher read from the manifest is the formatted subject of the signing certificate. -/
theorem appx_verify_ok_iff (H : Nat → Bytes → Bytes) (fx : Fx) (E : Env) (n : Nat) (v : View) (hb : v.isBundle = false) :
    run H (verifySteps fx E n v) = .ok () ↔
      ∃ s, readSig E v = .ok s ∧
        run H (fileSteps v s tAXBM sBlockMap "axbm") = .ok () ∧ run H (fileSteps v s tAXCI sCatalog "axci") = .ok () ∧
        run H (fileSteps v s tAXCT sCTypes "axct") = .ok () ∧ run H (bmSteps E v) = .ok () ∧ run H (catSteps E v s) = .ok () ∧
        run H (metaSteps v s) = .ok () ∧ run H (manifestSteps fx E v s) = .ok () :=
  verify_package_ok hb

/-- **appx_unsigned_is_notsigned.** A package without a member named `AppxSignature.p7x` is reported as not signed (never as
    valid), whatever else it holds; a signature part that does not start with "PKCX" is an invalid signature. -/
theorem appx_unsigned_is_notsigned (H : Nat → Bytes → Bytes) (fx : Fx) (E : Env) (n : Nat) (v : View) (h : v.find sSignature = none) :
    run H (verifySteps fx E n v) = .err "notsigned" := by
  cases n <;> simp [verifySteps, verifyCore, readSig, h, stopOf, run]

theorem appx_bad_prefix_rejected (H : Nat → Bytes → Bytes) (fx : Fx) (E : Env) (n : Nat) (v : View) (m : Entry) (blob : Bytes)
    (h : v.find sSignature = some m) (hc : m.content = .ok blob) (hp : blob.take 4 ≠ tPKCX) :
    run H (verifySteps fx E n v) = .err "badsig" := by
  cases n <;> simp [verifySteps, verifyCore, readSig, h, hc, hp, stopOf, run]

/-- **appx_member_covered_iff.** The members `verifyBlockMap` does *not* look up in the block map are exactly the signature
    part, the catalog, `[Content_Types].xml`, the block map itself and — in a bundle only — members named `*.appx`. -/
theorem appx_member_covered_iff (isBundle : Bool) (n : Bytes) :
    covered isBundle n = false ↔
      n = sSignature ∨ n = sCatalog ∨ n = sCTypes ∨ n = sBlockMap ∨ (isBundle = true ∧ Zip.endsWith n sAppx = true) := by
  simp only [covered, noHash, isAppxName, Bool.not_eq_false', Bool.or_eq_true, Bool.and_eq_true, beq_iff_eq]
  constructor
  · rintro ((((h | h) | h) | h) | h)
    · exact Or.inl h
    · exact Or.inr (Or.inl h)
    · exact Or.inr (Or.inr (Or.inl h))
    · exact Or.inr (Or.inr (Or.inr (Or.inl h)))
    · exact Or.inr (Or.inr (Or.inr (Or.inr h)))
  · rintro (h | h | h | h | h)
    · exact Or.inl (Or.inl (Or.inl (Or.inl h)))
    · exact Or.inl (Or.inl (Or.inl (Or.inr h)))
    · exact Or.inl (Or.inl (Or.inr h))
    · exact Or.inl (Or.inr h)
    · exact Or.inr h

/-- **appx_covered_members_matched.** In an accepted package every other member, in directory order, is matched with the
    `File` element at the same position: same name (slashes as backslashes), same size, as many blocks as 64 KiB pieces, and
    every piece hashes to its block. -/
theorem appx_covered_members_matched (H : Nat → Bytes → Bytes) (fx : Fx) (E : Env) (n : Nat) (v : View) (hb : v.isBundle = false)
    (ha : run H (verifySteps fx E n v) = .ok ()) :
    ∃ m blob bm alg pre rest, v.find sBlockMap = some m ∧ m.content = .ok blob ∧ E.parseBM blob = some bm ∧ bm.alg = some alg ∧
      bm.files = pre ++ rest ∧ All2 (Match H alg) (v.entries.filter fun f => covered false f.name) pre := by
  obtain ⟨s, _, _, _, _, h4, _⟩ := (appx_verify_ok_iff H fx E n v hb).1 ha
  obtain ⟨m, blob, bm, alg, h1, h2, h3, h5, h6⟩ := bmSteps_ok.1 h4
  rw [hb] at h6
  obtain ⟨pre, rest, e, hall⟩ := bmLoop_ok.1 h6
  exact ⟨m, blob, bm, alg, pre, rest, h1, h2, h3, h5, e, hall⟩

/-! ### tamper evidence -/

/-- `archive/zip` delivers exactly `UncompressedSize64` bytes or an error -/
def WF (v : View) : Prop := ∀ f ∈ v.entries, ∀ p, f.content = .ok p → p.length = f.usize

/-- what `files[name]` holds, as the verifier reads it -/
def part (v : View) (name : Bytes) : Option (Res Bytes) := (v.find name).map (·.content)

/-- the covered members of a package, in directory order -/
def coveredMembers (v : View) : List Entry := v.entries.filter fun f => covered v.isBundle f.name

/-- two member lists agree position by position as far as both go -/
def AgreeCommon (a b : List Entry) : Prop :=
  ∀ (i : Nat) (f g : Entry), a[i]? = some f → b[i]? = some g → zipToDos f.name = zipToDos g.name ∧ f.usize = g.usize ∧ f.content = g.content

theorem fileSteps_agree {H : Nat → Bytes → Bytes} {v v' : View} {s : Sig} {tag name : Bytes} {c c' : String}
    (h : run H (fileSteps v s tag name c) = .ok ()) (h' : run H (fileSteps v' s tag name c') = .ok ()) :
    part v name = part v' name ∨ Collision H := by
  rcases fileSteps_ok.1 h with ⟨f1, t1⟩ | ⟨m, p, e, f1, c1, t1, e1⟩
  · rcases fileSteps_ok.1 h' with ⟨f2, _⟩ | ⟨m', p', e', _, _, t2, _⟩
    · left; simp [part, f1, f2]
    · rw [t1] at t2; cases t2
  · rcases fileSteps_ok.1 h' with ⟨_, t2⟩ | ⟨m', p', e', f2, c2, t2, e2⟩
    · rw [t1] at t2; cases t2
    · rw [t1] at t2; cases t2
      by_cases hp : p = p'
      · left; simp [part, f1, f2, c1, c2, hp]
      · right; exact ⟨s.alg, p, p', hp, e1.trans e2.symm⟩

theorem all2_get {α β : Type} {R : α → β → Prop} : ∀ {a : List α} {b : List β}, All2 R a b → ∀ (i : Nat) (x : α), a[i]? = some x →
    ∃ y, b[i]? = some y ∧ R x y
  | _, _, .nil, i, x, h => by simp at h
  | _, _, .cons h0 ht, 0, x, h => by simp at h; subst h; exact ⟨_, by simp, h0⟩
  | _, _, .cons h0 ht, i + 1, x, h => by
    simp only [List.getElem?_cons_succ] at h ⊢
    exact all2_get ht i x h

theorem nblocks_mul_ge (u : Nat) : u ≤ nblocks u * blockSize := by
  unfold nblocks blockSize; omega

/-- **appx_tamper_evident.** Two packages accepted under the same signature (`readSig` gives the same certificate and digest
    list, e.g. because they carry the same signature part) agree on everything a digest covers, or `H` has a collision:
    `[Content_Types].xml` (AXCT), the block map (AXBM), the catalog incl. its presence (AXCI), the stream of local records
    before the signature part and the directory stream (`zmeta`: AXPC, AXCD), and — through the block map — name, size and
    contents of the covered members, position by position. -/
theorem appx_tamper_evident (H : Nat → Bytes → Bytes) (fx : Fx) (E : Env) (n : Nat) (v v' : View)
    (hb : v.isBundle = false) (hb' : v'.isBundle = false) (hwf : WF v) (hwf' : WF v')
    (hsig : readSig E v = readSig E v')
    (ha : run H (verifySteps fx E n v) = .ok ()) (ha' : run H (verifySteps fx E n v') = .ok ()) :
    Collision H ∨
      (part v sCTypes = part v' sCTypes ∧ part v sBlockMap = part v' sBlockMap ∧ part v sCatalog = part v' sCatalog ∧
       v.zmeta = v'.zmeta ∧ AgreeCommon (coveredMembers v) (coveredMembers v')) := by
  obtain ⟨s, hs, a1, a2, a3, a4, _, a6, _⟩ := (appx_verify_ok_iff H fx E n v hb).1 ha
  obtain ⟨s', hs', b1, b2, b3, b4, _, b6, _⟩ := (appx_verify_ok_iff H fx E n v' hb').1 ha'
  rw [hsig, hs'] at hs; cases hs
  by_cases hcol : Collision H
  · exact Or.inl hcol
  right
  have nc : ∀ {P : Prop}, P ∨ Collision H → P := fun h => h.resolve_right hcol
  have eBM := nc (fileSteps_agree a1 b1)
  refine ⟨nc (fileSteps_agree a3 b3), eBM, nc (fileSteps_agree a2 b2), ?_, ?_⟩
  · obtain ⟨pc, cd, z1, p1, c1⟩ := metaSteps_ok.1 a6
    obtain ⟨pc', cd', z2, p2, c2⟩ := metaSteps_ok.1 b6
    have e1 : pc = pc' := Classical.byContradiction fun h => hcol ⟨s.alg, pc, pc', h, p1.trans p2.symm⟩
    have e2 : cd = cd' := Classical.byContradiction fun h => hcol ⟨s.alg, cd, cd', h, c1.trans c2.symm⟩
    rw [z1, z2, e1, e2]
  · obtain ⟨m, blob, bm, alg, f1, c1, p1, g1, l1⟩ := bmSteps_ok.1 a4
    obtain ⟨m', blob', bm', alg', f2, c2, p2, g2, l2⟩ := bmSteps_ok.1 b4
    have : blob = blob' := by
      have := eBM
      simp only [part, f1, f2, Option.map_some, Option.some.injEq, c1, c2, Res.ok.injEq] at this
      exact this
    subst this
    rw [p1] at p2; cases p2
    rw [g1] at g2; cases g2
    obtain ⟨pre, rest, e, hall⟩ := bmLoop_ok.1 l1
    obtain ⟨pre', rest', e', hall'⟩ := bmLoop_ok.1 l2
    show AgreeCommon _ _
    unfold AgreeCommon coveredMembers
    intro i f g hf hg
    obtain ⟨b, hb1, hm⟩ := all2_get hall i f hf
    obtain ⟨b', hb2, hm'⟩ := all2_get hall' i g hg
    have : b = b' := by
      have x1 : bm.files[i]? = some b := by
        rw [e, List.getElem?_append_left (by
          have := List.getElem?_eq_some_iff.1 hb1; exact this.1)]; exact hb1
      have x2 : bm.files[i]? = some b' := by
        rw [e', List.getElem?_append_left (by
          have := List.getElem?_eq_some_iff.1 hb2; exact this.1)]; exact hb2
      rw [x1] at x2; exact Option.some.inj x2
    subst this
    obtain ⟨n1, s1, k1, p, cp, rp⟩ := hm
    obtain ⟨n2, s2, k2, q, cq, rq⟩ := hm'
    have hu : f.usize = g.usize := s1.symm.trans s2
    refine ⟨n1.symm.trans n2, hu, ?_⟩
    have fm : f ∈ v.entries := (List.mem_filter.1 (List.mem_of_getElem? hf)).1
    have gm : g ∈ v'.entries := (List.mem_filter.1 (List.mem_of_getElem? hg)).1
    have lp := hwf f fm p cp
    have lq := hwf' g gm q cq
    rw [← hu] at rq
    rcases blockSteps_inj b.blocks p q f.usize rp rq with h | h
    · have hge : f.usize ≤ b.blocks.length * blockSize := by rw [k1]; exact nblocks_mul_ge _
      rw [Nat.min_eq_left hge, List.take_of_length_le (by omega), List.take_of_length_le (by omega)] at h
      rw [cp, cq, h]
    · exact absurd h hcol

/-! a concrete accepted package (non-vacuity of the hypotheses above) and what happens to it when a member changes -/

/-- toy hash: the first byte -/
def xH : Nat → Bytes → Bytes := fun _ b => b.take 1

def xE : Env :=
  { openSig := fun b => if b = [1] then .ok ⟨⟨[7], [83]⟩, 0, 1, tAPPX ++ tAXPC ++ [1] ++ tAXCD ++ [2] ++ tAXBM ++ [98]⟩ else .err "badsig",
    parseBM := fun b => if b = [98] then some ⟨some 0, [⟨[97], 1, [some [7]]⟩, ⟨zipToDos Appx.sManifest, 1, [some [77]]⟩]⟩ else none,
    openCat := fun _ => .err "catalog",
    parseManifest := fun b => if b = [77] then some ⟨true, [[⟨[], sPublisher, [83]⟩]]⟩ else none,
    parseBundle := fun _ => none, fmtName := id, unzip := fun _ => none, mapOrder := id }

def xView (payload : Bytes) : View :=
  ⟨[⟨[97], true, payload.length, 0, .ok payload, payload⟩, ⟨Appx.sManifest, true, 1, 0, .ok [77], [77]⟩,
    ⟨sBlockMap, false, 1, 0, .ok [98], [98]⟩, ⟨sSignature, false, 5, 0, .ok (tPKCX ++ [1]), tPKCX ++ [1]⟩], .ok ([1], [2])⟩

set_option maxRecDepth 20000 in
example : run xH (verifySteps Fx.orig xE 0 (xView [7])) = .ok () ∧ (xView [7]).isBundle = false ∧
    run xH (verifySteps Fx.orig xE 0 (xView [8])) = .err "bm-digest" ∧
    run xH (verifySteps Fx.orig xE 0 (xView [7, 7])) = .err "bm-mismatch" := by decide

example : WF (xView [7]) := by
  intro f hf p hp
  simp only [xView, List.mem_cons, List.not_mem_nil, or_false] at hf
  rcases hf with rfl | rfl | rfl | rfl <;> (simp at hp; subst hp; rfl)

/-- a member's contents changed (same position, everything else as it may be): rejected, or a collision -/
theorem appx_member_change_rejected (H : Nat → Bytes → Bytes) (fx : Fx) (E : Env) (n : Nat) (v v' : View)
    (hb : v.isBundle = false) (hb' : v'.isBundle = false) (hwf : WF v) (hwf' : WF v') (hsig : readSig E v = readSig E v')
    (ha : run H (verifySteps fx E n v) = .ok ())
    (i : Nat) (f g : Entry) (hf : (coveredMembers v)[i]? = some f) (hg : (coveredMembers v')[i]? = some g)
    (hne : f.content ≠ g.content) :
    run H (verifySteps fx E n v') ≠ .ok () ∨ Collision H := by
  by_cases ha' : run H (verifySteps fx E n v') = .ok ()
  · rcases appx_tamper_evident H fx E n v v' hb hb' hwf hwf' hsig ha ha' with h | ⟨_, _, _, _, h⟩
    · exact Or.inr h
    · exact absurd (h i f g hf hg).2.2 hne
  · exact Or.inl ha'

/-- `[Content_Types].xml`, the block map or the catalog changed, added or removed: rejected, or a collision -/
theorem appx_part_change_rejected (H : Nat → Bytes → Bytes) (fx : Fx) (E : Env) (n : Nat) (v v' : View)
    (hb : v.isBundle = false) (hb' : v'.isBundle = false) (hwf : WF v) (hwf' : WF v') (hsig : readSig E v = readSig E v')
    (ha : run H (verifySteps fx E n v) = .ok ())
    (hne : part v sCTypes ≠ part v' sCTypes ∨ part v sBlockMap ≠ part v' sBlockMap ∨ part v sCatalog ≠ part v' sCatalog ∨
      v.zmeta ≠ v'.zmeta) :
    run H (verifySteps fx E n v') ≠ .ok () ∨ Collision H := by
  by_cases ha' : run H (verifySteps fx E n v') = .ok ()
  · rcases appx_tamper_evident H fx E n v v' hb hb' hwf hwf' hsig ha ha' with h | ⟨h1, h2, h3, h4, _⟩
    · exact Or.inr h
    · rcases hne with h | h | h | h
      · exact absurd h1 h
      · exact absurd h2 h
      · exact absurd h3 h
      · exact absurd h4 h
  · exact Or.inl ha'

/-! ### stated gaps -/

/-- **appx_blockmap_trailing_files_accepted (gap).** `File` elements after the ones the members use up are ignored: a block map
    that lists members the package does not have passes `verifyBlockMap` (replayed: corpus/C02/appxv-gaps.ops, bm-trailing-file). -/
theorem appx_blockmap_trailing_files_accepted (H : Nat → Bytes → Bytes) (alg : Nat) (isBundle : Bool) (es : List Entry)
    (bms extra : List AppxPkg.BmFile) (h : run H (bmLoop alg isBundle es bms) = .ok ()) :
    run H (bmLoop alg isBundle es (bms ++ extra)) = .ok () := by
  obtain ⟨pre, rest, e, hall⟩ := bmLoop_ok.1 h
  exact bmLoop_ok.2 ⟨pre, rest ++ extra, by rw [e, List.append_assoc], hall⟩

example : run (fun _ b => b) (bmLoop 256 false [⟨[97], true, 1, 0, .ok [7], [7]⟩] [⟨[97], 1, [some [7]]⟩, ⟨[103], 5, []⟩]) = .ok () := by
  decide

/-- **appx_publisher_shadow_accepted_orig (gap, unrepaired code).** Whatever the manifest's `Identity` elements say, a further
    `Identity` element (or, in the last one, a further attribute with local name `Publisher` and any prefix — `x:Publisher`,
    `xmlns:Publisher`) decides what `checkManifest` compares with the certificate; the attribute a conformant reader sees is
    not looked at (replayed: corpus/C02/appxv-gaps.ops, publisher-*). -/
theorem appx_publisher_shadow_accepted_orig (root : Bool) (ids : List (List Xml.Attr)) (a : List Xml.Attr) (space y : Bytes) :
    readPublisher false ⟨root, ids ++ [a ++ [⟨space, sPublisher, y⟩]]⟩ = y ∧
    (ids ≠ [] → visiblePublisher ⟨root, ids ++ [a ++ [⟨space, sPublisher, y⟩]]⟩ = visiblePublisher ⟨root, ids⟩) := by
  constructor
  · simp [readPublisher, readAttr, List.foldl_append]
  · intro h
    cases ids with
    | nil => exact absurd rfl h
    | cons x r => rfl

/-- a manifest whose visible Publisher is `CN=Visible` is accepted for a certificate named `CN=Signer` -/
example : readPublisher false ⟨true, [[⟨[], sPublisher, [86]⟩], [⟨[], sPublisher, [83]⟩]]⟩ = [83] ∧
    visiblePublisher ⟨true, [[⟨[], sPublisher, [86]⟩], [⟨[], sPublisher, [83]⟩]]⟩ = some [86] := by decide

/-- **appx_publisher_visible_fixed.** With the repair the Publisher that is compared is the attribute `SetPublisher` writes: an
    accepted manifest's document element is called `Package` and the unprefixed `Publisher` attribute of its first `Identity`
    element is the formatted subject (or that name is empty and there is no such attribute). -/
theorem appx_publisher_visible_fixed (d : MDoc) (name : Bytes) (h : readPublisher true d = name) (hn : name ≠ []) :
    d.rootNamed = true ∧ visiblePublisher d = some name := by
  unfold readPublisher at h
  simp only [if_true] at h
  by_cases hr : d.rootNamed = true
  · simp only [hr, if_true] at h
    cases hv : visiblePublisher d with
    | none => rw [hv] at h; exact absurd h.symm hn
    | some p => rw [hv] at h; exact ⟨hr, by simpa using h⟩
  · simp only [hr] at h
    exact absurd h.symm hn

/-- **appx_catalog_unrelated_to_members (gap).** `verifyCatalog` looks at the catalog part only: which members the package has,
    and what they contain, does not enter (the `TODO` in verify.go).  The catalog's bytes are bound by AXCI. -/
theorem appx_catalog_unrelated_to_members (E : Env) (v v' : View) (s : Sig) (h : v.find sCatalog = v'.find sCatalog) :
    catSteps E v s = catSteps E v' s := by
  unfold catSteps; rw [h]

/-! ### bundles -/

theorem run_map_wrap (H : Nat → Bytes → Bytes) : ∀ (l : List Step), run H (l.map wrapStep) = .ok () ↔ run H l = .ok ()
  | [] => by simp [run]
  | .cmp cls alg s e :: r => by
    simp only [List.map_cons, wrapStep, run_cmp_ok, run_map_wrap H r]
  | .stop (.ok u) :: r => by
    simp only [List.map_cons, wrapStep, run, run_map_wrap H r]
  | .stop (.err e) :: r => by simp [wrapStep, run]
  | .stop (.panic e) :: r => by simp [wrapStep, run]
  | .stop .diverge :: r => by simp [wrapStep, run]

/-- what `verifyBundle` established for one `*.appx` member -/
def NestedOK (H : Nat → Bytes → Bytes) (E : Env) (nested : View → List Step) (s : Sig) (pk : List BPkg) (f : Entry) : Prop :=
  f.stored = true ∧ (∃ p ∈ pk, p.offset = (f.dataOff : Int) ∧ p.size = f.usize) ∧
    ∃ nv, E.unzip f.region = some nv ∧ run H (nested nv) = .ok () ∧ ∀ ns, readSig E nv = .ok ns → ns.cert.raw = s.cert.raw

theorem bundleLoop_ok {H : Nat → Bytes → Bytes} {fx : Fx} {E : Env} {nested : View → List Step} {s : Sig} {pk : List BPkg} :
    ∀ (es : List Entry) (seen : Seen), run H (bundleLoop fx E nested s pk es seen) = .ok () →
      ∀ f ∈ es, isAppxName f.name = true → NestedOK H E nested s pk f
  | [], _, _, f, hf, _ => by simp at hf
  | e :: es, seen, h, f, hf, ha => by
    unfold bundleLoop at h
    by_cases h0 : isAppxName e.name = true
    · simp only [h0, Bool.not_true, Bool.false_eq_true, if_false] at h
      by_cases h1 : e.stored = true
      · simp only [h1, Bool.not_true, Bool.false_eq_true, if_false] at h
        cases hg : seenGet seen (zipToDos e.name) with
        | none => simp [hg, run] at h
        | some idx =>
          simp only [hg] at h
          by_cases h2 : idx < 0
          · rw [if_pos h2] at h
            cases hd : fx.dup <;> simp [hd, run] at h
          · rw [if_neg h2] at h
            cases hp : pk[idx.toNat]? with
            | none => simp [hp, run] at h
            | some p =>
              simp only [hp] at h
              by_cases h3 : p.offset ≠ (e.dataOff : Int)
              · simp [h3, run] at h
              · rw [if_neg h3] at h
                by_cases h4 : p.size ≠ e.usize
                · simp [h4, run] at h
                · rw [if_neg h4] at h
                  cases hu : E.unzip e.region with
                  | none => simp [hu, run] at h
                  | some nv =>
                    simp only [hu, run_append_ok, run_map_wrap] at h
                    obtain ⟨⟨hn, hc⟩, hrest⟩ := h
                    rcases List.mem_cons.1 hf with rfl | hf'
                    · refine ⟨h1, ⟨p, List.mem_of_getElem? hp, Classical.byContradiction fun x => h3 x,
                        Classical.byContradiction fun x => h4 x⟩, nv, hu, hn, ?_⟩
                      intro ns hns
                      rw [hns] at hc
                      by_cases hcr : ns.cert.raw = s.cert.raw
                      · exact hcr
                      · simp [hcr, run] at hc
                    · exact bundleLoop_ok es _ hrest f hf' ha
      · simp [h1, run] at h
    · have h0' : isAppxName e.name = false := by simpa using h0
      simp only [h0', Bool.not_false, if_true] at h
      rcases List.mem_cons.1 hf with rfl | hf'
      · rw [h0'] at ha; cases ha
      · exact bundleLoop_ok es seen h f hf' ha

/-- **bundle_accept_implies.** An accepted bundle: the Publisher read from the bundle manifest is the formatted subject of the
    signing certificate, and every member named `*.appx` (last of its name) is stored, is listed in the bundle manifest with
    exactly its data offset and size, is itself accepted by `Verify` (as a package or bundle, one level down) and is signed
    with the same certificate. -/
theorem bundle_accept_implies (H : Nat → Bytes → Bytes) (fx : Fx) (E : Env) (n : Nat) (v : View) (hb : v.isBundle = true)
    (hperm : ∀ l : List Entry, ∀ f, f ∈ E.mapOrder l ↔ f ∈ l)
    (ha : run H (verifySteps fx E (n + 1) v) = .ok ()) :
    ∃ s m blob d, readSig E v = .ok s ∧ v.find sBundle = some m ∧ m.content = .ok blob ∧ E.parseBundle blob = some d ∧
      readPublisher fx.pub ⟨true, d.ids⟩ = E.fmtName s.cert.subject ∧
      ∀ f ∈ uniqLast v.entries, isAppxName f.name = true → NestedOK H E (verifySteps fx E n) s d.packages f := by
  simp only [verifySteps, verifyCore] at ha
  cases hs : readSig E v with
  | ok s =>
    simp only [hs, hb, if_true, run_append_ok] at ha
    obtain ⟨_, hbun⟩ := ha
    unfold bundleSteps at hbun
    cases hf : v.find sBundle with
    | none => simp [hf, run] at hbun
    | some m =>
      simp only [hf] at hbun
      cases hc : m.content with
      | ok blob =>
        simp only [hc] at hbun
        cases hp : E.parseBundle blob with
        | none => simp [hp, run] at hbun
        | some d =>
          simp only [hp] at hbun
          by_cases hpub : readPublisher fx.pub ⟨true, d.ids⟩ = E.fmtName s.cert.subject
          · simp only [hpub, ne_eq, not_true_eq_false, if_false] at hbun
            refine ⟨s, m, blob, d, rfl, rfl, hc, hp, hpub, ?_⟩
            intro f hfm hax
            exact bundleLoop_ok _ _ hbun f ((hperm _ f).2 hfm) hax
          · simp [hpub, run] at hbun
      | err x => simp [hc, run] at hbun
      | panic x => simp [hc, run] at hbun
      | diverge => simp [hc, run] at hbun
  | err x => simp [hs, stopOf, run] at ha
  | panic x => simp [hs, stopOf, run] at ha
  | diverge => simp [hs, stopOf, run] at ha

/-- 'n.appx' -/
def xN : Bytes := [110, 46, 97, 112, 112, 120]

/-- the toy world with a bundle: the member `n.appx` (region [5]) unzips to the accepted package `xView [7]` -/
def xE2 : Env :=
  { xE with
    openSig := fun b => if b = [2] then .ok ⟨⟨[7], [83]⟩, 0, 1, tAPPX ++ tAXPC ++ [3] ++ tAXCD ++ [4] ++ tAXBM ++ [99]⟩ else xE.openSig b,
    parseBM := fun b => if b = [99] then some ⟨some 0, [⟨zipToDos sBundle, 1, [some [66]]⟩]⟩ else xE.parseBM b,
    parseBundle := fun b => if b = [66] then some ⟨[[⟨[], sPublisher, [83]⟩]], [⟨xN, 30, 1⟩]⟩ else none,
    unzip := fun b => if b = [5] then some (xView [7]) else none }

def xBundle (off : Nat) : View :=
  ⟨[⟨xN, true, 1, off, .ok [5], [5]⟩, ⟨sBundle, true, 1, 0, .ok [66], [66]⟩, ⟨sBlockMap, false, 1, 0, .ok [99], [99]⟩,
    ⟨sSignature, false, 5, 0, .ok (tPKCX ++ [2]), tPKCX ++ [2]⟩], .ok ([3], [4])⟩

set_option maxRecDepth 40000 in
/-- non-vacuity of `bundle_accept_implies`: an accepted bundle; the same bundle with another data offset is refused -/
example : run xH (verifySteps Fx.orig xE2 1 (xBundle 30)) = .ok () ∧ (xBundle 30).isBundle = true ∧
    run xH (verifySteps Fx.orig xE2 1 (xBundle 31)) = .err "bundle-offset" := by decide

/-- **bundle_duplicate_dosname_panics_orig (listed finding F-appx-bundle-dupname-panic).** Once a package name is marked as
    seen, a further stored `*.appx` member mapping to the same DOS name makes the unrepaired `verifyBundle` index
    `bundle.Packages[-1]`. -/
theorem bundle_duplicate_dosname_panics_orig (fx : Fx) (hfx : fx.dup = false) (E : Env) (nested : View → List Step) (s : Sig)
    (pk : List BPkg) (f : Entry) (fs : List Entry) (seen : Seen)
    (h1 : isAppxName f.name = true) (h2 : f.stored = true) (h3 : seenGet seen (zipToDos f.name) = some (-1)) :
    bundleLoop fx E nested s pk (f :: fs) seen = [.stop (.panic "verifyBundle:Packages[-1]")] := by
  unfold bundleLoop
  simp [h1, h2, h3, hfx]

/-- **bundle_duplicate_dosname_refused_fixed.** The repaired code refuses that member with an error. -/
theorem bundle_duplicate_dosname_refused_fixed (fx : Fx) (hfx : fx.dup = true) (E : Env) (nested : View → List Step) (s : Sig)
    (pk : List BPkg) (f : Entry) (fs : List Entry) (seen : Seen)
    (h1 : isAppxName f.name = true) (h2 : f.stored = true) (h3 : seenGet seen (zipToDos f.name) = some (-1)) :
    bundleLoop fx E nested s pk (f :: fs) seen = [.stop (.err "bundle-duplicate")] := by
  unfold bundleLoop
  simp [h1, h2, h3, hfx]

/-- the mark is reached: after `x/a.appx` has been accepted, `x\a.appx` finds it (`zipToDos` identifies the two names) -/
example : zipToDos [120, 47, 97] = zipToDos [120, 92, 97] ∧ seenGet (seenSet (seenInit [⟨[120, 92, 97], 5, 1⟩] 0 []) [120, 92, 97] (-1)) (zipToDos [120, 47, 97]) = some (-1) := by
  decide

/-- **bundle_msix_members_not_verified (limit).** Only names ending in `.appx` are treated as nested packages: a member named
    `*.msix` is skipped by the bundle loop (it is an ordinary, block-mapped member; if the manifest lists it, the bundle is
    refused as "bundle missing file"). -/
theorem bundle_msix_members_not_verified (fx : Fx) (E : Env) (nested : View → List Step) (s : Sig) (pk : List BPkg) (f : Entry)
    (fs : List Entry) (seen : Seen) (h : isAppxName f.name = false) :
    bundleLoop fx E nested s pk (f :: fs) seen = bundleLoop fx E nested s pk fs seen := by
  rw [bundleLoop]; simp [h]

example : isAppxName [97, 46, 109, 115, 105, 120] = false := by decide

end Relic.Props.C02

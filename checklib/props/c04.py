"""C04 — a key is used only for callers entitled to it (server authentication / authorisation / real-ip)."""
import os
import re
import runner

TIE = "corr:authz"
TIE_THEOREM = ("Relic.Props.C04.sign_only_if_entitled / not_entitled_refused / malformed_config_is_error / list_exact / "
               "untrusted_headers_ignored / derived_addr_spec (model Relic.Model.Authz + Relic.Model.RealIP vs server.Handler()); "
               "policy mode: policy_sign_only_if_entitled / policy_fail_closed / policy_no_credentials_401 / policy_deny_never_grants / "
               "policy_deny_status / policy_list_exact / policy_input_faithful / policy_mode_exclusive "
               "(model Relic.Model.AuthzPolicy vs server.Handler() with server.policyurl pointing at a scripted policy server)")
RULE = ("seeded random: configurations (<=4 clients by SPKI fingerprint or by CA with real generated ECDSA chains incl. intermediate "
        "supplied/withheld, expired, wrong EKU, self-signed; <=5 keys: plain, alias, dangling alias, alias of alias, self alias, alias "
        "entries with own token/roles, hidden, without token, without roles, undefined token; 0-2 tokens; trusted-proxy lists of "
        "IPv4/IPv6 hosts and CIDRs incl. unparsable entries) x requests (POST /sign incl. missing key/filename and unknown sigtype, "
        "GET /keys/{k}, /list_keys, /, /health, /directory; every configured key name and an unknown one; direct peers inside/outside "
        "the trusted nets, IPv6, IPv4-mapped, '@', garbage; 0-2 X-Forwarded-For headers of 1-3 hops with varying separators; "
        "Ssl-Client-Cert absent / chain / undecodable / no PEM; TLS chain of 9 kinds / none / empty) against the real "
        "server.Handler() over recording fake tokens; requests with >=2 CA clients fired 6 times (map iteration order); 0-2 header variants "
        "per request. Non-trivial = distinct op that passed server construction and reached authentication with a certificate "
        "(i.e. model outcome is not start error, 401 certificate-required or a public endpoint). "
        "POLICY MODE (op kind preq, own seeded stream): the same configurations with server.policyurl = a real HTTP server on the loopback "
        "interface scripted per request (URL variants: no path, /, /v1/data/..., /V1/DATA, /v1/datax, query containing /v1/data, a port "
        "nobody listens on, and no URL = certificate mode with bearer tokens present) x the same requests plus Authorization header "
        "variants (absent, Bearer/bearer/BEARER/mixed case, 'Bearer ' alone, 'Bearer', two spaces, Basic, 'Bearertok', tab, leading space, "
        "UTF-8 token, non-ASCII in the prefix) x TLS chain present/absent x trusted-proxy headers x policy behaviours: 200/201/202/204/226/299 "
        "and 300..599 (with bodies that say allow), connection closed without answer, connection refused, slow past the request deadline "
        "(thorough only), bodies: standard, upper-case member names, unknown members, duplicate allow, null lists, no result / null result / "
        "{} / null / allow:null (zero decision), allow as string / number, roles as string, result as array, trailing garbage, truncated, "
        "empty, HTML, array, true (unparsable); decisions: allow / deny x 0, 1, 2 error strings with and without a should401 code and near "
        "misses (case, trailing space) x roles and allowed_keys empty / filled / aimed at the requested key's resolved entry / near-miss "
        "names (k1 vs k10, r vs r0, R0, alias name instead of target). Observed besides the above: the decision request the policy server "
        "received (URL, wrapper, path, query, token, fingerprint, PEM chain) and the errors of the problem document. Non-trivial in policy "
        "mode = distinct op for which a decision request is sent.")
ASSUMPTIONS = ["policy mode: the policy server is a parameter (a function from the decision request to a transport failure or a status and "
               "the result of json.Unmarshal on the body); json.Unmarshal, json.Marshal of the input, PEM encoding and the SHA-256 "
               "fingerprint are abstract (certificates are names); the harness supplies what Unmarshal makes of each body by construction; "
               "what a wrong or malicious policy answer can do is outside the property (trust boundary: policy_decision_trusted)",
               "policy_list_exact: every entry that allowed_keys names has a token (counter-example policy_list_needs_tokens)",
               "header values are byte strings; a bearer token that is not valid UTF-8 is not generated (json.Marshal would replace the bytes)",
               "x509 path validation (ClientConfig.Match -> x509.Verify), PEM/URL decoding of Ssl-Client-Cert, net.ParseIP/IPNet.Contains "
               "are abstract relations supplied as data; the harness supplies them by construction of its certificates and address pool",
               "Go maps are association lists with distinct keys; iteration order is arbitrary (all choices are covered)",
               "list_exact: the server started and no token section is named \"\" (counter-example list_exact_needs_named_tokens)",
               "strings.TrimSpace: ASCII white space, U+0085 and U+00A0 only",
               "what a token does with a key name after GetKey is called is outside the model (fake tokens return the entry itself)"]
TRUSTED = ["models Relic.Model.Authz / Relic.Model.AuthzPolicy / Relic.Model.RealIP are hand-written; tied to server/, internal/authmodel, internal/realip, config by "
           "differential execution on every run",
           "tools/extractroutes (go/ast) regenerates Relic/Generated/Routes.lean from server/server.go on every run",
           "chi routing, net/http, crypto/x509, zerolog"]
UNPROVED = []
IMPL_PARALLEL = 16

_variants = {}


def generate(ctx):
    """T-gen: route table of Server.Handler() -> lean/Relic/Generated/Routes.lean"""
    tool = runner.build_tool("extractroutes")
    out = os.path.join(runner.LEAN, "Relic", "Generated", "Routes.lean")
    if os.path.exists(out):
        os.remove(out)
    r = runner.sh([tool, runner.REPO, out])
    if r.returncode != 0:
        raise runner.Broken("extractroutes failed on server/server.go", r.stdout[-2000:])
    return ["Relic.Props.C04.routes_guarded (regenerated Relic.Generated.Routes)"]


def _alts(line):
    return [a.strip() for a in line.split(" || ")]


def _parse(alt):
    """ok <status> <problem> ip= user= keys= ev= [extras]"""
    f = alt.split(" ")
    d = {"kind": f[0]}
    if f[0] == "ok":
        d["status"] = int(f[1])
        d["problem"] = f[2]
    for x in f[1:]:
        if "=" in x:
            k, v = x.split("=", 1)
            d[k] = v
    return d


def _tag(tag):
    d = {}
    for x in tag.split(" "):
        if "=" in x:
            k, v = x.split("=", 1)
            d[k] = v
    return d


def _pairs(s):
    out = {}
    if s and s != "-":
        for p in s.split(","):
            u, v = p.rsplit(":", 1)
            out[u] = v
    return out


def agree(op, il, mres, tag):
    """the implementation stops at whichever matching CA client the map iteration reaches first: every outcome it showed
    must be one the model allows"""
    if il == mres:
        return True
    if "post=?" in il:  # connection refused / slow policy server: what was sent is not observable
        mres = re.sub(r"post=\S+", "post=?", mres)
    ms = set(_alts(mres))
    return all(a in ms for a in _alts(il))


def nontrivial(op, mres, tag):
    if op.split()[1] == "preq" and tag.startswith("mode=policy"):
        return "post=w" in mres or mres.startswith("panic")
    if tag.startswith("start") or not mres.startswith("ok"):
        return mres.startswith("panic")
    f = op.split()
    if f[3] in ("health", "directory"):
        return False
    return "certificate-required" not in mres


def branch(op, mres, tag):
    f = op.split()
    if f[1] == "preq" and not tag.startswith("mode=cert"):
        first = _alts(mres)[0].split(" ")
        kv = _opkv(f)
        how = kv["opa"] if not kv["opa"].startswith("http:2") else ("2xx:" + ("bad" if kv["dec"] == "bad" else "allow" if kv["dec"][0] == "1" else "deny"))
        key = "policy:" + f[3] + ":" + " ".join(first[:3] if first[0] == "ok" else first[:2]) + ":" + how
        if "ev=getkey" in mres:
            key += ":token"
        return key
    a = _alts(mres)
    first = a[0].split(" ")
    key = f[3] + ":" + " ".join(first[:3] if first[0] == "ok" else first[:2])
    if "ev=getkey" in a[0]:
        key += ":token"
    if len(a) > 1:
        key += ":ambiguous"
    return key


SHOULD401 = ("e0", "e1", "e2", "e3")


def _opkv(f):
    return dict(x.split("=", 1) for x in f[7:] if "=" in x)


def _bearer(auth_hex):
    """bearer token of an Authorization header (hex) as the specification has it, hex again"""
    a = b"" if auth_hex == "-" else bytes.fromhex(auth_hex)
    if len(a) < 7 or a[:7].lower() != b"bearer ":
        return "-"
    return a[7:].hex() or "-"


def _predicate_policy(op, il, mres, tag):
    """policy (OPA / bearer token) mode: the property evaluated on what the real server did"""
    P = "Relic.Props.C04."
    f = op.split()
    ep = f[3]
    kv = _opkv(f)
    t = _tag(tag)
    if tag.startswith("start"):
        return None
    keyed = ep in ("sign", "getkey")
    public = ep in ("health", "directory")
    dec = kv["dec"]
    fetch_failed = not kv["opa"].startswith("http:2") or dec == "bad"
    dfield = dec.split(",") if dec != "bad" else None
    denied = (not fetch_failed) and dfield[0] == "0"
    suffix = kv["url"].split(":", 1)[1]
    suffix_b = b"" if suffix == "-" else bytes.fromhex(suffix)
    for alt in _alts(il):
        if alt.startswith("crash") or alt.startswith("not-run"):
            return (P + "policy_no_panic", mres, "harness process died")
        d = _parse(alt)
        if d["kind"] == "panic":
            return (P + "policy_no_panic", mres, "handler panicked")
        if d["kind"] != "ok":
            continue
        for flag in ("audit-ip-differs", "audit-missing", "audit-unparseable"):
            if flag in alt:
                return (P + "policy_untrusted_headers_ignored", "audit client.ip = derived address", flag)
        touched = d.get("ev", "-") != "-"
        ok2xx = 200 <= d["status"] < 300
        listed = d.get("keys", "-") != "-"
        post = d.get("post", "-")
        if (touched or (keyed and ok2xx)) and not (keyed and t.get("pent") == "1"):
            if t.get("cred") == "0":
                thm, why = "policy_no_credentials_401", "request without bearer token or certificate"
            elif fetch_failed:
                thm, why = "policy_fail_closed", "the policy decision could not be fetched (%s, dec=%s)" % (kv["opa"], "bad" if dec == "bad" else "ok")
            elif denied:
                thm, why = "policy_deny_never_grants", "the decision says allow=false"
            else:
                thm, why = "policy_sign_only_if_entitled", "the decision neither names the resolved key nor grants one of its roles"
            return (P + thm, "401/403/5xx and empty token log", "key used or disclosed although " + why)
        if public:
            if post not in ("-", "?"):
                return (P + "policy_asked_only_with_credentials", "post=-", "policy server asked about a public endpoint")
        elif t.get("pcerr") == "1":
            # a trusted proxy's Ssl-Client-Cert does not decode: error before anything else
            if d["status"] != 500 or touched or listed or post not in ("-", "?"):
                return (P + "policy_fail_closed", "500, policy not asked", "undecodable Ssl-Client-Cert from a trusted proxy not answered 500")
        elif t.get("cred") == "0":
            ok = d["status"] == 401 and d["problem"] == "token-required" and post in ("-", "?")
            if not ok or touched or listed:
                return (P + "policy_no_credentials_401", "401 token-required, policy not asked",
                        "request without bearer token or certificate not refused with 401 (or the policy server was asked)")
        elif fetch_failed:
            if d["status"] not in (500, 504) or touched or listed or d.get("user", "-") != "-":
                return (P + "policy_fail_closed", "500/504, no token event, nothing listed",
                        "failed policy fetch (%s) did not give an error response" % kv["opa"])
        elif denied:
            errs = [] if dfield[2] == "-" else dfield[2].split("+")
            want = 401 if any(e in SHOULD401 for e in errs) else 403
            if d["status"] not in (401, 403) or touched or listed or d["problem"] != "token-authorization-failed":
                return (P + "policy_deny_never_grants", "401/403 token-authorization-failed",
                        "decision with allow=false (errors=%s roles=%s keys=%s) not refused" % (dfield[2], dfield[3], dfield[4]))
            if d["status"] != want or str(want) != t.get("deny") or d.get("perr", "-") != dfield[2]:
                return (P + "policy_deny_status", "%d with errors %s" % (want, dfield[2]),
                        "status of a denial: 401 iff an error is in should401, else 403; errors relayed")
        else:
            if ep == "list" and d["status"] == 200 and t.get("plist", "none") != "none":
                want = set() if t["plist"] == "-" else set(t["plist"].split("+"))
                got = d.get("keys", "-")
                gl = [] if got == "-" else got.split(",")
                if (t.get("lhyp") == "1" and (set(gl) != want or gl != sorted(gl))) or not want <= set(gl):
                    return (P + "policy_list_exact", "keys=" + t["plist"], "listing differs from the sorted non-hidden signable names")
        # the decision request
        if post not in ("-", "?"):
            if "|" in post:
                return (P + "policy_input_faithful", "one decision request", "several decision requests for one request")
            pf = post.split(":")
            xin = t.get("xin", "").split(":")
            want_w = "w1" if b"/v1/data" in suffix_b else "w0"
            names = f[8].split(":")[1]
            names = [] if names == "-" else names.split("+")
            bad = None
            if len(pf) != 7 or len(xin) != 5:
                bad = "unexpected shape of the decision request: " + post
            elif pf[0] != want_w or pf[1] != suffix:
                bad = "decision request sent to the wrong URL or in the wrong wrapper"
            elif pf[4] != _bearer(kv["auth"]):
                bad = "token in the policy input is not the bearer token of this request's Authorization header"
            elif pf[2:4] != xin[0:2]:
                bad = "path/query in the policy input are not this request's"
            elif pf[5:7] != xin[3:5]:
                bad = "certificate in the policy input is not the one real-ip attributes to the caller"
            elif t.get("ut") == "1" and (pf[5] != (names[0] if names else "-") or pf[6] != ("+".join(reversed(names)) or "-")):
                bad = "certificate in the policy input is not the TLS peer's although the peer is not a trusted proxy"
            if bad:
                return (P + "policy_input_faithful", "w:url:" + ":".join(xin), bad)
        if ep != "health" and "xip" in t and d.get("ip") != t["xip"]:
            thm = "policy_untrusted_headers_ignored" if t.get("ut") == "1" else "derived_addr_spec"
            return (P + thm, "ip=" + t["xip"], "recorded address is not the specified one")
        if t.get("ut") == "1" and ep != "health" and d.get("ip") != t.get("utip"):
            return (P + "policy_untrusted_headers_ignored", "ip=" + t.get("utip", "?"), "address derived for an untrusted peer is not the peer's")
    if t.get("ut") == "1":
        key = "P " + " ".join(f[2:9] + [x for x in f[9:] if not x.startswith("xff=") and not x.startswith("ssl=")])
        prev = _variants.get(key)
        cur = set(_alts(il))
        if prev is None:
            _variants[key] = cur
        elif prev != cur:
            return (P + "policy_untrusted_headers_ignored", next(iter(prev)),
                    "response to an untrusted peer depends on X-Forwarded-For / Ssl-Client-Cert")
    return None


def predicate(op, il, mres, tag):
    """the property itself, on the implementation's behaviour"""
    f = op.split()
    if f[1] == "preq":
        if not tag.startswith("mode=cert"):
            return _predicate_policy(op, il, mres, tag)
        # no policy URL: certificate mode; bearer tokens and the policy server play no role
        if any("post=-" not in a for a in _alts(il) if a.startswith("ok")):
            return ("Relic.Props.C04.cert_mode_ignores_bearer", "post=-", "policy server contacted although no policy URL is configured")
    ep = f[3]
    t = _tag(tag)
    ent = _pairs(t.get("ent", "-"))
    lst = _pairs(t.get("list", "-"))
    keyed = ep in ("sign", "getkey")
    for alt in _alts(il):
        if alt.startswith("crash") or alt.startswith("not-run"):
            return ("Relic.Props.C04.no_panic", mres, "harness process died")
        d = _parse(alt)
        if d["kind"] == "panic":
            if t.get("mal") == "1":
                return ("Relic.Props.C04.malformed_config_is_error", "refusal (403), no panic",
                        "malformed configuration entry makes the handler panic")
            return ("Relic.Props.C04.no_panic", mres, "handler panicked")
        if d["kind"] != "ok":
            continue  # server construction refused the configuration
        for flag in ("audit-ip-differs", "audit-missing", "audit-unparseable"):
            if flag in alt:
                return ("Relic.Props.C04.untrusted_headers_ignored", "audit client.ip = derived address", flag)
        touched = d.get("ev", "-") != "-"
        ok2xx = 200 <= d["status"] < 300
        if keyed and (touched or ok2xx):
            if ent.get(d.get("user", "-")) != "1":
                return ("Relic.Props.C04.sign_only_if_entitled", "401/403 and empty token log",
                        "key used or disclosed for a caller the configuration does not entitle (user=%s)" % d.get("user"))
            # the entry the token ends up using must be the one the requested name resolves to (one alias hop),
            # i.e. the one the caller's roles were compared with
            for e in (d.get("ev", "-").split(",") if touched else []):
                parts = e.split(":")
                if len(parts) == 3 and parts[0] in ("getkey", "sign") and "res" in t and parts[2] != t["res"]:
                    return ("Relic.Props.C04.sign_only_if_entitled", "token uses key " + t["res"],
                            "the token was made to use key entry %s, not the entry %s the caller was authorised for (second alias hop)" % (parts[2], t["res"]))
        if keyed and t.get("mal") == "1" and (touched or d["status"] not in (400, 401, 403, 500) or
                                               (d["status"] == 500 and "ssl=bad" not in op)):
            return ("Relic.Props.C04.malformed_config_is_error", "refusal, no token event", "malformed entry not refused")
        if not keyed and touched:
            return ("Relic.Props.C04.sign_only_if_entitled", "no token event", "token touched by an endpoint that names no key")
        if ep == "list" and d["status"] == 200:
            want = lst.get(d.get("user", "-"))
            got = d.get("keys", "-")
            got = "" if got == "-" else got.replace(",", "+")
            if want is None or want != got:
                return ("Relic.Props.C04.list_exact", "keys=" + str(want), "listing differs from the sorted non-hidden signable names")
        if ep != "health" and "xip" in t and d.get("ip") != t["xip"]:
            thm = "untrusted_headers_ignored" if t.get("ut") == "1" else "derived_addr_spec"
            return ("Relic.Props.C04." + thm, "ip=" + t["xip"],
                    "recorded address is not the specified one (peer itself if untrusted; else right-most untrusted hop, else left-most hop)")
        if t.get("ut") == "1" and ep != "health":
            if d.get("ip") != t.get("utip"):
                return ("Relic.Props.C04.untrusted_headers_ignored", "ip=" + t.get("utip", "?"),
                        "address derived for an untrusted peer is not the peer's")
    if t.get("ut") == "1" and len(_alts(mres)) == 1:
        # header variants of the same request from an untrusted peer: identical behaviour of the implementation
        key = " ".join(f[1:8] + [x for x in f[8:] if x.startswith("ra=") or x.startswith("tls=")])
        prev = _variants.get(key)
        cur = set(_alts(il))
        if prev is None:
            _variants[key] = cur
        elif prev != cur:
            return ("Relic.Props.C04.untrusted_headers_ignored", next(iter(prev)),
                    "response to an untrusted peer depends on X-Forwarded-For / Ssl-Client-Cert")
    return None


def matches_known(k, op, il, mres, tag):
    return False


# --- DAEMON ops (server/daemon New / Serve / Close, internal/activation, zhttp recovery against the REAL daemon on loopback listeners):
# a further correspondence under the pseudo-property C04DMN, checklib/models/daemon.py; theorems in lean/Relic/Props/C04_Daemon.lean
import sys as _sys_dmn, os as _os_dmn
_sys_dmn.path.insert(0, _os_dmn.path.join(_os_dmn.path.dirname(_os_dmn.path.dirname(_os_dmn.path.abspath(__file__))), "models"))
import daemon as _dmn; _dmn.wrap(globals(), "C04")

/- lemmas about the PE model -/
import Relic.Model.PE
namespace Relic.PE
open Relic

theorem seg_length (f : Bytes) (a b : Nat) (h : b ≤ f.length) : (seg f a b).length = b - a := by
  simp [seg, List.length_take, List.length_drop]; omega

theorem seg_append (f : Bytes) (a b c : Nat) (h1 : a ≤ b) (h2 : b ≤ c) :
    seg f a b ++ seg f b c = seg f a c := by
  unfold seg
  have e : c - a = (b - a) + (c - b) := by omega
  rw [e, List.take_add, List.drop_drop]
  congr 3
  omega

theorem seg_self (f : Bytes) (a : Nat) : seg f a a = [] := by simp [seg]

theorem fixSections_ge (secTblEnd fa : Nat) (ss : List Section) (soh : Nat) (ss' : List Section) (soh' : Nat)
    (h : fixSections secTblEnd fa ss soh = .ok (ss', soh')) (hs : secTblEnd ≤ soh) : secTblEnd ≤ soh' := by
  induction ss generalizing soh ss' soh' with
  | nil => simp [fixSections] at h; omega
  | cons s rest ih =>
    simp only [fixSections] at h
    split at h
    · split at h <;> try contradiction
      rename_i heq
      injection h with h; injection h with _ h2; subst h2
      exact ih _ _ _ heq hs
    · split at h
      · contradiction
      · rename_i hnz hge
        split at h
        · injection h with h; injection h with _ h2; subst h2
          split <;> omega
        · split at h <;> try contradiction
          split at h <;> try contradiction
          rename_i heq
          injection h with h; injection h with _ h2; subst h2
          apply ih _ _ _ heq
          split <;> omega

/-- what `readHeaders` guarantees about a file whose `e_lfanew` is at least 64 -/
structure HeadersOk (f : Bytes) (h : Headers) : Prop where
  pe : h.m.peStart = u32 f 0x3c
  off : h.m.hdrOff = h.m.peStart
  dd : h.m.posDDCert = h.m.peStart + 24 + h.m.dd4Start
  ddIn : h.m.dd4Start + 8 ≤ h.m.soh
  dd4 : (u16 f (h.m.peStart + 24) = 267 ∧ h.m.dd4Start = 128) ∨ (u16 f (h.m.peStart + 24) = 523 ∧ h.m.dd4Start = 144)
  cur : h.cur = h.m.sizeOfHdr
  curLe : h.cur ≤ f.length
  tblLe : h.m.peStart + 24 + h.m.soh ≤ h.cur
  hashed : h.hashed = seg f 0 (h.m.peStart + 88) ++ seg f (h.m.peStart + 92) h.m.posDDCert ++
              seg f (h.m.posDDCert + 8) h.cur
  certStart : h.m.certStart = u32 f h.m.posDDCert
  certSize : h.m.certSize = u32 f (h.m.posDDCert + 4)

theorem readHeaders_spec (f : Bytes) (h : Headers) (hp : 64 ≤ u32 f 0x3c) (e : readHeaders f = .ok h) :
    HeadersOk f h := by
  unfold readHeaders at e
  simp only [hp, if_true] at e
  generalize hP : u32 f 60 = P at e hp
  generalize u16 f (P + 20) = S at e
  generalize u16 f (P + 6) = N at e
  by_cases c1 : f.length < 64
  · simp [c1] at e
  rw [if_neg c1] at e
  by_cases c2 : seg f 0 2 ≠ [77, 90]
  · simp [c2] at e
  rw [if_neg c2] at e
  by_cases c3 : f.length < P
  · simp [c3] at e
  rw [if_neg c3] at e
  by_cases c4 : f.length < P + 4
  · simp [c4] at e
  rw [if_neg c4] at e
  by_cases c5 : seg f P (P + 4) ≠ [80, 69, 0, 0]
  · simp [c5] at e
  rw [if_neg c5] at e
  by_cases c6 : f.length < P + 24
  · simp [c6] at e
  rw [if_neg c6] at e
  by_cases c7 : f.length < P + 24 + S
  · simp [c7] at e
  rw [if_neg c7] at e
  by_cases c8 : S < 2
  · simp [c8] at e
  rw [if_neg c8] at e
  -- the two optional-header variants
  have key : ∀ need nrva dd4, ((u16 f (P + 24) = 267 ∧ dd4 = 128) ∨ (u16 f (P + 24) = 523 ∧ dd4 = 144)) → dd4 + 8 ≤ need →
      (if S < need then (Res.err "eof" : Res Headers)
       else if u32 f (P + 24 + nrva) < 5 then Res.err "noroom"
       else if u32 f (P + 24 + 60) < P + 24 + S + N * 40 then Res.err "secoverlap"
       else if f.length < P + 24 + S + N * 40 then Res.err "eof"
       else match fixSections (P + 24 + S + N * 40) (u32 f (P + 24 + 36)) (rawSections f (P + 24 + S) N) (u32 f (P + 24 + 60)) with
        | Res.err e => Res.err e
        | Res.panic p => Res.panic p
        | Res.diverge => Res.diverge
        | Res.ok (sections, sizeOfHdr) =>
          if f.length < P + 24 + S + N * 40 + (sizeOfHdr - (P + 24 + S + N * 40)) then Res.err "eof"
          else Res.ok
            { m := { peStart := P, hdrOff := P, soh := S, dd4Start := dd4, posDDCert := P + 24 + dd4,
                     secTblStart := P + 24 + S, sizeOfHdr := sizeOfHdr,
                     pageSize := if u16 f (P + 4) = 512 ∨ u16 f (P + 4) = 388 ∨ u16 f (P + 4) = 644 then 8192 else 4096,
                     fileAlign := u32 f (P + 24 + 36), certStart := u32 f (P + 24 + dd4),
                     certSize := u32 f (P + 24 + dd4 + 4), nsec := N },
              sections := sections,
              hashed := seg f 0 (P + 24 + 64) ++ seg f (P + 24 + 68) (P + 24 + dd4) ++
                seg f (P + 24 + dd4 + 8) (P + 24 + S + N * 40 + (sizeOfHdr - (P + 24 + S + N * 40))),
              cur := P + 24 + S + N * 40 + (sizeOfHdr - (P + 24 + S + N * 40)) }) = Res.ok h →
      HeadersOk f h := by
    intro need nrva dd4 hdd hneed e
    by_cases d1 : S < need
    · simp [d1] at e
    rw [if_neg d1] at e
    by_cases d2 : u32 f (P + 24 + nrva) < 5
    · simp [d2] at e
    rw [if_neg d2] at e
    by_cases d3 : u32 f (P + 24 + 60) < P + 24 + S + N * 40
    · simp [d3] at e
    rw [if_neg d3] at e
    by_cases d4 : f.length < P + 24 + S + N * 40
    · simp [d4] at e
    rw [if_neg d4] at e
    cases hfix : fixSections (P + 24 + S + N * 40) (u32 f (P + 24 + 36)) (rawSections f (P + 24 + S) N) (u32 f (P + 24 + 60)) with
    | err _ => simp [hfix] at e
    | panic _ => simp [hfix] at e
    | diverge => simp [hfix] at e
    | ok v =>
      obtain ⟨sections, soh'⟩ := v
      simp only [hfix] at e
      have hge := fixSections_ge _ _ _ _ _ _ hfix (by omega)
      by_cases d5 : f.length < P + 24 + S + N * 40 + (soh' - (P + 24 + S + N * 40))
      · simp [d5] at e
      rw [if_neg d5] at e
      injection e with e
      subst e
      have hc : P + 24 + S + N * 40 + (soh' - (P + 24 + S + N * 40)) = soh' := by omega
      refine ⟨hP.symm, rfl, rfl, by simp only; omega, hdd, ?_, ?_, ?_, ?_, rfl, ?_⟩
      · simp only; exact hc
      · simp only; omega
      · simp only; omega
      · simp only
      · simp only [Nat.add_assoc]
  by_cases m1 : u16 f (P + 24) = 267
  · simp only [m1, if_true] at e
    exact key 224 92 128 (Or.inl ⟨m1, rfl⟩) (by omega) e
  · by_cases m2 : u16 f (P + 24) = 523
    · rw [if_neg m1, if_pos m2] at e
      exact key 240 108 144 (Or.inr ⟨m2, rfl⟩) (by omega) e
    · simp [m1, m2] at e

theorem readSectionData_spec (flen : Nat) (ss : List Section) (i cur next c n : Nat) (ex : List (Nat × Nat × Nat))
    (e : readSectionData flen ss i cur next = .ok (c, n, ex)) (hc : cur = next) (hl : cur ≤ flen) :
    c = n ∧ cur ≤ c ∧ c ≤ flen := by
  induction ss generalizing i cur next c n ex with
  | nil => simp [readSectionData] at e; omega
  | cons s rest ih =>
    simp only [readSectionData] at e
    split at e
    · exact ih _ _ _ _ _ _ e hc hl
    · split at e
      · contradiction
      · split at e
        · contradiction
        · rename_i hle
          split at e
          · rename_i c' n' ex' heq
            injection e with e; injection e with e1 e2; injection e2 with e2 e3
            subst e1 e2
            have := ih _ _ _ _ _ _ heq (by omega) (by omega)
            omega
          · rename_i hno
            exact absurd e (hno _ _ _)

/-- what a successful `DigestPE` guarantees (for `e_lfanew ≥ 64`): the stream fed to the image hash is the
    file up to `origSize` minus the checksum and the certificate-table directory entry, zero-padded to 8 -/
structure DigestOk (f : Bytes) (d : Digest) : Prop where
  pe : d.m.peStart = u32 f 0x3c
  dd : d.m.posDDCert = d.m.peStart + 24 + d.m.dd4Start
  dd4 : (u16 f (d.m.peStart + 24) = 267 ∧ d.m.dd4Start = 128) ∨ (u16 f (d.m.peStart + 24) = 523 ∧ d.m.dd4Start = 144)
  ddLe : d.m.posDDCert + 8 ≤ d.origSize
  origLe : d.origSize ≤ f.length
  hashed : d.hashed = seg f 0 (d.m.peStart + 88) ++ seg f (d.m.peStart + 92) d.m.posDDCert ++
              seg f (d.m.posDDCert + 8) d.origSize ++ List.replicate (d.certStart - d.origSize) 0
  padLe : d.origSize ≤ d.certStart
  padLt : d.certStart < d.origSize + 8
  aligned : d.certStart % 8 = 0
  certStart : d.m.certStart = u32 f d.m.posDDCert
  certSize : d.m.certSize = u32 f (d.m.posDDCert + 4)
  unsigned : d.m.certSize = 0 → d.origSize = f.length
  signed : d.m.certSize ≠ 0 → d.origSize = d.m.certStart ∧ f.length = d.m.certStart + d.m.certSize

theorem DigestPE_spec (f : Bytes) (d : Digest) (hp : 64 ≤ u32 f 0x3c) (e : DigestPE f = .ok d) : DigestOk f d := by
  unfold DigestPE at e
  cases hh : readHeaders f with
  | err _ => simp [hh] at e
  | panic _ => simp [hh] at e
  | diverge => simp [hh] at e
  | ok h =>
    have H := readHeaders_spec f h hp hh
    simp only [hh] at e
    generalize gapOf h.sections h.m.sizeOfHdr = gap at e
    by_cases g1 : f.length < h.cur + gap
    · simp [g1] at e
    rw [if_neg g1] at e
    have hnext : (if gap = 0 then h.m.sizeOfHdr else h.m.sizeOfHdr + gap) = h.cur + gap := by
      rw [H.cur]; split <;> omega
    rw [hnext] at e
    cases hs : readSectionData f.length h.sections 0 (h.cur + gap) (h.cur + gap) with
    | err _ => simp [hs] at e
    | panic _ => simp [hs] at e
    | diverge => simp [hs] at e
    | ok v =>
      obtain ⟨cur2, next2, extents⟩ := v
      simp only [hs] at e
      obtain ⟨e1, e2, e3⟩ := readSectionData_spec _ _ _ _ _ _ _ _ hs rfl (by omega)
      subst e1
      have fin : ∀ (orig : Nat), h.cur ≤ orig → orig ≤ f.length →
          (d.m.certSize = 0 → orig = f.length) →
          (d.m.certSize ≠ 0 → orig = d.m.certStart ∧ f.length = d.m.certStart + d.m.certSize) →
          (Res.ok { hashed := h.hashed ++ seg f h.cur orig ++ List.replicate (if orig % 8 = 0 then 0 else 8 - orig % 8) 0,
                    origSize := orig, certStart := orig + (if orig % 8 = 0 then 0 else 8 - orig % 8), m := h.m,
                    extents := extents, hdrLen := h.hashed.length } : Res Digest) = Res.ok d → DigestOk f d := by
        intro orig h1 h2 h3 h4 e
        injection e with e
        subst e
        simp only at h3 h4
        refine ⟨H.pe, H.dd, H.dd4, ?_, h2, ?_, ?_, ?_, ?_, H.certStart, H.certSize, h3, h4⟩
        · simp only; have := H.tblLe; have := H.ddIn; have := H.dd; omega
        · simp only
          rw [H.hashed, List.append_assoc (seg f 0 _ ++ seg f _ _), seg_append f _ _ _ (by have := H.tblLe; have := H.ddIn; have := H.dd; omega) h1]
          congr 2
          omega
        · simp only; omega
        · simp only; split <;> omega
        · simp only; split <;> omega
      by_cases t1 : h.m.certSize = 0
      · rw [if_pos t1] at e
        have : cur2 + (f.length - cur2) = f.length := by omega
        rw [this] at e
        refine fin f.length (by omega) (Nat.le_refl _) (fun _ => rfl) ?_ e
        intro hne
        injection e with e
        subst e
        exact absurd t1 hne
      · rw [if_neg t1] at e
        by_cases t2 : h.m.certStart < cur2
        · simp [t2] at e
        rw [if_neg t2] at e
        by_cases t3 : f.length < cur2 + (h.m.certStart - cur2)
        · simp [t3] at e
        rw [if_neg t3] at e
        by_cases t4 : f.length < cur2 + (h.m.certStart - cur2) + h.m.certSize
        · simp [t4] at e
        rw [if_neg t4] at e
        by_cases t5 : cur2 + (h.m.certStart - cur2) + h.m.certSize < f.length
        · simp [t5] at e
        rw [if_neg t5] at e
        have hcs : cur2 + (h.m.certStart - cur2) = h.m.certStart := by omega
        rw [hcs] at e t3 t4 t5
        refine fin h.m.certStart (by omega) (by omega) ?_ ?_ e
        · intro hz
          injection e with e
          subst e
          exact absurd hz t1
        · intro _
          injection e with e
          subst e
          exact ⟨rfl, by simp only; omega⟩

end Relic.PE

"""C03 — see DESIGN.md section 5; format models: PE (more to come)."""
from composite import install
TIE = "corr:pe"
TIE_THEOREM = "Relic.Props.C03 (models Relic.Model.PE vs lib/authenticode)"
UNPROVED = []
IMPL_PARALLEL = 16
install(globals(), "C03", ["pe", "e2e", "cab", "ps", "jar"])

package main

// registration of the RPM signer model (harness/rpm; first op token RPM) – kept in its own file so that it merges without
// touching main.go.  C11 and C06 keep their own runners; their RPM ops run as a second correspondence under the
// pseudo-properties C11RPM / C06RPM (checklib/models/rpm.py `second`), routed by first token through hx.Dispatch.

import "verifharness/rpm"

func init() {
	handlers["RPM"] = rpm.Handle
	for _, p := range []string{"C01", "C02", "C03", "C08"} {
		gens[p] = append(gens[p], forProp(p, rpm.Gen))
	}
	gens["C11RPM"] = []genFunc{forProp("C11", rpm.Gen)}
	gens["C06RPM"] = []genFunc{forProp("C06", rpm.Gen)}
}

// Package appx: generated APPX/MSIX packages through relic's real appx signer (sg.Sign: ZipToTar, DigestAppxTar,
// AppxDigest.Sign, binary patch) and verifier (signappx.Verify), for C01 / C02 / C03 / C05 / C08.
//
// Ops:
//
//	APPX sign    <ziphex> <rounds> <tab>*                 both sides
//	APPX fixture <ziphex> <tab>*                          both sides (a package signed by somebody else)
//	APPX mutate  <signedhex> <k> {<pos>:<byte>}*k <tab>*  both sides (C02)
//	APPX signout …                                        model only (stage 2, built by checklib/models/appx.py)
//
// <tab>: what the Lean model takes as parameters (see lean/Relic/Driver/Appx.lean): I:<compd>:<plain>, PX:<plain>,
// MX:<plain>, CX:<plain>, B:<xml>:<parsed block map>.
//
// Impl output of `sign`:  ok|err <class>|panic …  @@ I <view of the input through archive/zip>
//
//	{ @@ N<r> <mt> <md> <manifest plain crc> <blockmap plain compd crc> <ctypes …> <catalog …|- - 0> <signature …>
//	  @@ O<r> <output hex> @@ H<r> <tag=hash,…  from the signature> @@ V<r> <signappx.Verify class>
//	  @@ B<r> <parsed block map of the output> @@ G<r> <view of the output> }   per successful round r
//	@@ E<r> <class> for the round that was refused @@ U <1 iff the refused input is byte-identical afterwards, no output>
package appx

import (
	"archive/zip"
	"bufio"
	"bytes"
	"crypto"
	"crypto/sha256"
	"encoding/base64"
	"encoding/hex"
	"encoding/xml"
	"fmt"
	"io"
	"os"
	"path/filepath"
	"sort"
	"strings"

	"github.com/sassoftware/relic/v8/lib/authenticode"
	"github.com/sassoftware/relic/v8/lib/pkcs7"
	"github.com/sassoftware/relic/v8/lib/signappx"
	"github.com/sassoftware/relic/v8/lib/x509tools"

	"verifharness/c17"
	"verifharness/hx"
	"verifharness/sg"
)

const (
	nSignature = "AppxSignature.p7x"
	nCatalog   = "AppxMetadata/CodeIntegrity.cat"
	nBlockMap  = "AppxBlockMap.xml"
	nManifest  = "AppxManifest.xml"
	nCTypes    = "[Content_Types].xml"
)

// ---------------------------------------------------------------------------------------------
// XML parts

type xmlBlock struct {
	Hash string `xml:",attr"`
	Size uint64 `xml:",attr,omitempty"`
}
type xmlBmFile struct {
	Name    string `xml:",attr"`
	Size    uint64 `xml:",attr"`
	LfhSize int    `xml:",attr"`
	Block   []xmlBlock
}
type xmlBlockMap struct {
	XMLName    xml.Name `xml:"http://schemas.microsoft.com/appx/2010/blockmap BlockMap"`
	HashMethod string   `xml:",attr"`
	File       []xmlBmFile
}

const xmlHdr = "<?xml version=\"1.0\" encoding=\"UTF-8\" standalone=\"no\"?>\r\n"

func manifestXML(tag string) []byte {
	return []byte(xmlHdr + `<Package xmlns="http://schemas.microsoft.com/appx/manifest/foundation/windows10"><Identity Name="verif.` + tag +
		`" Publisher="CN=somebody else" Version="1.0.3.0" ProcessorArchitecture="x64"/><Properties><DisplayName>verif ` + tag +
		`</DisplayName><PublisherDisplayName>verif</PublisherDisplayName><Logo>a.png</Logo></Properties></Package>`)
}

const ctypesXML = "<?xml version=\"1.0\" encoding=\"UTF-8\" standalone=\"yes\"?>\r\n" +
	`<Types xmlns="http://schemas.openxmlformats.org/package/2006/content-types"><Default Extension="png" ContentType="image/png"/>` +
	`<Default Extension="xml" ContentType="application/vnd.ms-appx.manifest+xml"/><Override PartName="/AppxBlockMap.xml" ContentType="application/vnd.ms-appx.blockmap+xml"/></Types>`

func blockMapFor(ms []c17.RawMember) xmlBlockMap {
	bm := xmlBlockMap{HashMethod: "http://www.w3.org/2001/04/xmlenc#sha256"}
	for _, m := range ms {
		f := xmlBmFile{Name: strings.ReplaceAll(string(m.Name), "/", "\\"), Size: uint64(len(m.Data)), LfhSize: 30 + len(m.Name) + len(m.ExBefore) + len(m.ExAfter)}
		for off := 0; off < len(m.Data); off += 65536 {
			end := off + 65536
			if end > len(m.Data) {
				end = len(m.Data)
			}
			h := sha256.Sum256(m.Data[off:end])
			b := xmlBlock{Hash: base64.StdEncoding.EncodeToString(h[:])}
			if m.Deflate {
				b.Size = uint64(7 + (end-off)/3) // any number: relic copies the compressed block sizes, it never computes them
			}
			f.Block = append(f.Block, b)
		}
		bm.File = append(bm.File, f)
	}
	return bm
}

func marshalBM(bm xmlBlockMap) []byte {
	x, err := xml.Marshal(bm)
	if err != nil {
		panic(err)
	}
	return append([]byte(xmlHdr), x...)
}

// bmData: the parsed block map in the form the model takes (B: entry) – name,size,size;…
func bmData(blob []byte) (string, bool) {
	var bm xmlBlockMap
	if err := xml.Unmarshal(blob, &bm); err != nil {
		return "", false
	}
	if len(bm.File) == 0 {
		return "-", true
	}
	var rows []string
	for _, f := range bm.File {
		row := hx.Hex([]byte(f.Name))
		for _, b := range f.Block {
			row += fmt.Sprintf(",%d", b.Size)
		}
		rows = append(rows, row)
	}
	return strings.Join(rows, ";"), true
}

// bmView: the parsed block map with hashes (B<r> section) – name,size,lfh,hash:size|…;…
func bmView(blob []byte) string {
	var bm xmlBlockMap
	if err := xml.Unmarshal(blob, &bm); err != nil {
		return "err"
	}
	if len(bm.File) == 0 {
		return "-"
	}
	var rows []string
	for _, f := range bm.File {
		var bl []string
		for _, b := range f.Block {
			bl = append(bl, fmt.Sprintf("%s:%d", b.Hash, b.Size))
		}
		s := "-"
		if len(bl) > 0 {
			s = strings.Join(bl, "|")
		}
		rows = append(rows, fmt.Sprintf("%s,%d,%d,%s", hx.Hex([]byte(f.Name)), f.Size, f.LfhSize, s))
	}
	return strings.Join(rows, ";")
}

// ---------------------------------------------------------------------------------------------
// the model's parameter table for an archive

func isPEName(n string) bool { return strings.HasSuffix(n, ".exe") || strings.HasSuffix(n, ".dll") }

// tabFor lists what the model cannot compute for the members of z: inflate pairs, contents DigestPE refuses, parsed
// block maps.  notXML: contents the manifest / content-types parsers refuse (known to the generator).
func tabFor(z []byte, badManifest, badCTypes [][]byte) string {
	var sb strings.Builder
	seen := map[string]bool{}
	add := func(s string) {
		if !seen[s] {
			seen[s] = true
			sb.WriteString(" " + s)
		}
	}
	zr, err := zip.NewReader(bytes.NewReader(z), int64(len(z)))
	if err == nil {
		for _, f := range zr.File {
			var raw, plain []byte
			if r, err := f.OpenRaw(); err == nil {
				raw, _ = io.ReadAll(r)
			}
			ok := false
			if rc, err := f.Open(); err == nil {
				plain, err = io.ReadAll(rc)
				rc.Close()
				ok = err == nil || err == zip.ErrChecksum
			}
			if !ok {
				continue
			}
			if f.Method == zip.Deflate {
				add("I:" + hx.Hex(raw) + ":" + hx.Hex(plain))
			}
			if isPEName(f.Name) {
				if _, err := authenticode.DigestPE(bytes.NewReader(plain), crypto.SHA256, false); err != nil {
					add("PX:" + hx.Hex(plain))
				}
			}
			if f.Name == nBlockMap {
				if d, ok := bmData(plain); ok {
					add("B:" + hx.Hex(plain) + ":" + d)
				}
			}
		}
	}
	for _, b := range badManifest {
		add("MX:" + hx.Hex(b))
	}
	for _, b := range badCTypes {
		add("CX:" + hx.Hex(b))
	}
	if f41Fixed() {
		add("F41")
	}
	return sb.String()
}

// f41Fixed: the source in $VERIF_REPO carries the repair of F41 (patches/appx2-f41-blockmap-bundle-only.patch): blockMap.AddFile
// leaves *.appx members out of the block map only in bundles.  Read from the source text, never from the behaviour; the
// model is asked for the version of AddFile that is there (Codec.f41).
func f41Fixed() bool {
	b, err := os.ReadFile(filepath.Join(repoDir(), "lib", "signappx", "blockmap.go"))
	return err == nil && bytes.Contains(b, []byte("b.isBundle && strings.HasSuffix(f.Name, \".appx\")"))
}

// ---------------------------------------------------------------------------------------------
// generator

var fixtureDir = filepath.Join(repoDir(), "functest", "packages")

func repoDir() string {
	if d := os.Getenv("VERIF_REPO"); d != "" {
		return d
	}
	return "/repo"
}

func fixture(name string) []byte {
	b, err := os.ReadFile(filepath.Join(fixtureDir, name))
	if err != nil {
		panic(err)
	}
	return b
}

var alphabet = []byte("abcdefghijklmnopqrstuvwxyz0123456789_-")

func genName(r *hx.Rng, used map[string]bool, ext string) []byte {
	for {
		n := r.Pick(1, 3, 5, 8, 12)
		b := make([]byte, n)
		for i := range b {
			b[i] = alphabet[r.Intn(len(alphabet))]
		}
		if n > 2 && r.Intn(3) == 0 {
			b[1+r.Intn(n-2)] = '/'
		}
		s := string(b) + ext
		if used[s] || strings.HasPrefix(s, "/") || strings.Contains(s, "//") || strings.Contains(s, "/.") {
			continue
		}
		used[s] = true
		return []byte(s)
	}
}

func genData(r *hx.Rng, n int) []byte {
	d := make([]byte, n)
	switch r.Intn(3) {
	case 0: // compressible
		for i := range d {
			d[i] = "relic appx "[i%11]
		}
	case 1:
		for i := range d {
			d[i] = byte(i / 251)
		}
	default:
		copy(d, r.Bytes(n))
	}
	return d
}

// shapes of generated inputs
const (
	shPlain       = iota // payload, manifest, block map, content types
	shPE                 // with a .dll / .exe member: catalog
	shBoundary           // member sizes around the 64 KiB block size
	shStoredNoBM         // stored members only, no block map in the input
	shDeflNoBM           // deflated member, no block map: "found compressed files not already in blockmap"
	shAppxName           // a payload member named *.appx in a plain package (not in the block map, verifier expects it)
	shOutOfOrder         // a regular member after the manifest
	shNoManifest         // no manifest
	shGap                // junk between members / before the first member
	shTruncated          // cut somewhere
	shBmMismatch         // old block map names a different file / has too many files
	shBmBlocks           // old block map lists more blocks for a file than the file has (index panic in CopySizes)
	shBadPE              // .exe member that is not a PE image
	shBadManifest        // manifest that is not XML
	shNoZip64            // 32-bit end record only
	shManifestMid        // old block map lists the manifest before other files (index skew in CopySizes)
	shCTypesFirst        // [Content_Types].xml is the first regenerated part of the input (before the manifest)
	nShapes
)

var shapeNames = []string{"plain", "pe", "boundary", "stored-nobm", "defl-nobm", "appxname", "outoforder", "nomanifest", "gap", "truncated",
	"bm-mismatch", "bm-blocks", "badpe", "badmanifest", "nozip64", "manifest-mid", "ctypes-first"}

type built struct {
	z           []byte
	badManifest [][]byte
}

func pkg(r *hx.Rng, shape int, tier string) built {
	used := map[string]bool{}
	var ms []c17.RawMember
	n := r.Pick(0, 1, 2, 2, 3, 5)
	mk := func(name []byte, data []byte) c17.RawMember {
		m := c17.RawMember{Name: name, Data: data}
		if r.Intn(3) > 0 && shape != shStoredNoBM {
			m.Deflate, m.Level = true, r.Pick(-1, 1, 9)
		}
		// descriptors as MakeAppx writes them (24 bytes) or 16 bytes or none; an empty member with a 24-byte descriptor is
		// measured 8 bytes short by zipslicer (C17 F7a, listed) and is not generated here
		switch r.Intn(4) {
		case 0:
			m.Desc, m.DescSig = 16, true
		case 1, 2:
			if len(data) > 0 {
				m.Desc, m.DescSig = 24, true
			}
		}
		if r.Intn(6) == 0 {
			m.ExBefore = []byte{0xfe, 0xca, 2, 0, 1, 2}
		}
		return m
	}
	for i := 0; i < n; i++ {
		ext := []string{".png", ".txt", ".pri", "", ".xml"}[r.Intn(5)]
		ms = append(ms, mk(genName(r, used, ext), genData(r, r.Pick(0, 1, 5, 40, 300, 2000))))
	}
	if shape != shPE && shape != shBadPE && shape != shBoundary && r.Intn(2) == 0 {
		ms = append(ms, mk(genName(r, used, ".dll"), fixture("ClassLibrary1.dll")))
	}
	switch shape {
	case shPE:
		for _, fx := range []string{"ClassLibrary1.dll", "WindowsFormsApplication1.exe"} {
			if r.Bool() || fx == "ClassLibrary1.dll" {
				nm := genName(r, used, fx[len(fx)-4:])
				ms = append(ms, mk(nm, fixture(fx)))
			}
		}
	case shBadPE:
		ms = append(ms, mk(genName(r, used, ".exe"), genData(r, r.Pick(0, 3, 100, 700))))
	case shBoundary:
		sizes := []int{0, 1, 65535, 65536, 65537, 131072}
		if tier != "thorough" {
			sizes = []int{sizes[r.Intn(6)], sizes[r.Intn(6)]}
		}
		for _, sz := range sizes {
			d := make([]byte, sz)
			for i := range d {
				d[i] = byte(i>>8) ^ byte(i*7)
			}
			m := c17.RawMember{Name: genName(r, used, ".bin"), Data: d, Deflate: r.Bool(), Level: 9}
			if sz > 0 && r.Bool() {
				m.Desc, m.DescSig = 24, true
			}
			ms = append(ms, m)
		}
	case shAppxName:
		ms = append(ms, mk(genName(r, used, ".appx"), genData(r, r.Pick(1, 50))))
	}
	// shuffle the payload
	for i := len(ms) - 1; i > 0; i-- {
		j := r.Intn(i + 1)
		ms[i], ms[j] = ms[j], ms[i]
	}
	payload := append([]c17.RawMember{}, ms...)
	var out built
	man := c17.RawMember{Name: []byte(nManifest), Data: manifestXML(fmt.Sprint(r.Intn(1000))), Deflate: r.Bool(), Level: 9, Desc: 24, DescSig: true}
	if shape == shBadManifest {
		man.Data = []byte("this is <not xml")
		out.badManifest = append(out.badManifest, man.Data)
	}
	// the block map of the input: payload files (without *.appx) then the manifest
	var bmMs []c17.RawMember
	for _, m := range payload {
		if !strings.HasSuffix(string(m.Name), ".appx") {
			bmMs = append(bmMs, m)
		}
	}
	bm := blockMapFor(append(append([]c17.RawMember{}, bmMs...), man))
	switch shape {
	case shBmMismatch:
		if len(bm.File) > 1 && r.Bool() {
			bm.File[0].Name += "x"
		} else {
			bm.File = append([]xmlBmFile{{Name: "extra.bin", Size: 1, LfhSize: 39, Block: []xmlBlock{{Hash: "AAAA"}}}}, bm.File...)
			bm.File = append(bm.File[:len(bm.File)-1], xmlBmFile{Name: "more.bin", Size: 1, LfhSize: 38, Block: []xmlBlock{{Hash: "AAAA"}}})
			bm.File = append(bm.File, xmlBmFile{Name: "more2.bin", Size: 1, LfhSize: 38})
		}
	case shBmBlocks:
		if len(bm.File) > 1 {
			k := r.Intn(len(bm.File) - 1)
			bm.File[k].Block = append(bm.File[k].Block, xmlBlock{Hash: "AAAA", Size: 3})
		}
	case shManifestMid:
		if len(bm.File) > 1 {
			l := len(bm.File) - 1
			bm.File[0], bm.File[l] = bm.File[l], bm.File[0]
		}
	}
	bmM := c17.RawMember{Name: []byte(nBlockMap), Data: marshalBM(bm), Deflate: true, Level: 9, Desc: 24, DescSig: true}
	ct := c17.RawMember{Name: []byte(nCTypes), Data: []byte(ctypesXML), Deflate: true, Level: 9}
	all := payload
	if shape == shCTypesFirst {
		all = append(all, ct)
	}
	if shape != shNoManifest {
		all = append(all, man)
	}
	if shape == shOutOfOrder {
		all = append(all, mk(genName(r, used, ".late"), genData(r, 9)))
	}
	if shape != shStoredNoBM && shape != shDeflNoBM {
		all = append(all, bmM)
	}
	if shape == shDeflNoBM {
		// make sure one payload member is deflated
		all = append([]c17.RawMember{{Name: genName(r, used, ".z"), Data: genData(r, 100), Deflate: true, Level: 9}}, all...)
	}
	if r.Intn(4) > 0 && shape != shCTypesFirst {
		all = append(all, ct)
	}
	a := c17.RawArchive{Members: all, Z64: 1}
	if shape == shNoZip64 || r.Intn(5) == 0 {
		a.Z64 = 0
	}
	if shape == shGap && len(a.Members) > 0 {
		a.Members[r.Intn(len(a.Members))].Gap = r.Bytes(r.Pick(1, 4, 30))
	}
	out.z = a.Build()
	if shape == shTruncated && len(out.z) > 0 {
		out.z = out.z[:r.Intn(len(out.z))]
	}
	return out
}

// Gen writes the op list.
func Gen(w *bufio.Writer, seed uint64, tier string, prop string) {
	r := hx.NewRng(hx.NewRng(seed ^ 0xa99c).U64())
	n := 48
	if tier == "thorough" {
		n = 300
	}
	if prop == "C05" {
		fx := fixture("App1_1.0.3.0_x64.appx")
		fmt.Fprintf(w, "APPX fixture %s%s\n", hx.Hex(fx), tabFor(fx, nil, nil))
	}
	if prop == "C02" {
		genMutate(w, r, tier)
		return
	}
	for i := 0; i < n; i++ {
		shape := i % nShapes
		if i%3 == 1 {
			shape = []int{shPlain, shPE, shBoundary}[(i/3)%3]
		}
		if shape == shBoundary && tier != "thorough" && i > nShapes {
			shape = shPlain
		}
		rounds := "1"
		if prop == "C08" {
			rounds = []string{"2s", "2"}[r.Intn(2)]
		} else if r.Intn(4) == 0 {
			rounds = "2"
		}
		b := pkg(r, shape, tier)
		fmt.Fprintf(w, "APPX sign %s %s%s\n", hx.Hex(b.z), rounds, tabFor(b.z, b.badManifest, nil))
	}
	if prop == "C01" || prop == "C08" {
		// the package Microsoft's tools signed: relic replaces that signature
		fx := fixture("App1_1.0.3.0_x64.appx")
		fmt.Fprintf(w, "APPX sign %s %s%s\n", hx.Hex(fx), "2s", tabFor(fx, nil, nil))
	}
}

// ---------------------------------------------------------------------------------------------
// implementation runner

func classify(err error) string {
	s := err.Error()
	switch {
	case strings.Contains(s, "not contiguous"):
		return "notcontig"
	case strings.Contains(s, "missing manifest"):
		return "nomanifest"
	case strings.Contains(s, "is out of order"):
		return "outoforder"
	case strings.Contains(s, "found compressed files not already in blockmap"):
		return "unverified"
	case strings.Contains(s, "old block map has too many files"):
		return "bmtoomany"
	case strings.Contains(s, "old block map doesn't match new"):
		return "bmmismatch"
	case strings.Contains(s, "CodeIntegrity catalog"):
		return "pe"
	case strings.Contains(s, "error parsing block map"), strings.Contains(s, "XML syntax"), strings.Contains(s, "xml:"):
		return "xml"
	case strings.Contains(s, "unsupported zip compression"):
		return "method"
	case strings.Contains(s, "zip central directory not found"):
		return "notfound"
	case strings.Contains(s, "expected ZIP64 locator"):
		return "nolocator"
	case strings.Contains(s, "missing ZIP64 header"):
		return "missingzip64"
	case strings.Contains(s, "expected end record"):
		return "noend"
	case strings.Contains(s, "local file header not found"):
		return "nolfh"
	case strings.Contains(s, "data descriptor signature is missing"):
		return "nosig"
	case strings.Contains(s, "data descriptor is invalid"):
		return "baddesc"
	case strings.Contains(s, "archive/tar"), strings.Contains(s, "error reading tar"), strings.Contains(s, "invalid tarzip"):
		return "tar"
	case strings.Contains(s, "EOF"), strings.Contains(s, "negative offset"), strings.Contains(s, "seek backwards"),
		strings.Contains(s, "negative position"), strings.Contains(s, "invalid argument"), strings.Contains(s, "closed pipe"),
		strings.Contains(s, "flate:"), strings.Contains(s, "checksum"):
		return "io"
	}
	return "other:" + strings.ReplaceAll(s, " ", "_")
}

func classifyVerify(err error) string {
	if err == nil {
		return "ok"
	}
	s := err.Error()
	switch {
	case strings.Contains(s, "digest mismatch for zip contents"):
		return "err:mismatch-axpc"
	case strings.Contains(s, "digest mismatch for zip directory"):
		return "err:mismatch-axcd"
	case strings.Contains(s, "digest mismatch for "+nBlockMap):
		return "err:mismatch-axbm"
	case strings.Contains(s, "digest mismatch for "+nCTypes):
		return "err:mismatch-axct"
	case strings.Contains(s, "digest mismatch for "+nCatalog):
		return "err:mismatch-axci"
	case strings.Contains(s, "missing signed file: "+nCatalog):
		return "err:missing-axci"
	case strings.Contains(s, "missing signature for file: "+nCatalog):
		return "err:unsigned-axci"
	case strings.Contains(s, "missing security catalog"):
		return "err:nocatalog"
	case strings.Contains(s, "blockmap: unhashed zip file"):
		return "err:bm-unhashed"
	case strings.Contains(s, "blockmap: file mismatch"):
		return "err:bm-mismatch"
	case strings.Contains(s, "blockmap: digest mismatch"):
		return "err:bm-digest"
	case strings.Contains(s, "zip elements out of order"):
		return "err:outoforder"
	}
	return "err:other:" + strings.ReplaceAll(s, " ", "_")
}

// view: what archive/zip sees (name, method, flags, crc, size, extra, comment, digest of raw extent / contents)
func view(z []byte) string {
	zr, err := zip.NewReader(bytes.NewReader(z), int64(len(z)))
	if err != nil {
		return "err"
	}
	rows := make([]string, len(zr.File))
	for i, f := range zr.File {
		sum := "oerr"
		if raw, err := f.OpenRaw(); err == nil {
			rb, _ := io.ReadAll(raw)
			h := sha256.Sum256(rb)
			sum = hex.EncodeToString(h[:6])
		}
		off, _ := f.DataOffset()
		rows[i] = fmt.Sprintf("%s:%d:%d:%d:%d:%s:%s:%d:%d:%d:%s", hx.Hex([]byte(f.Name)), f.Method, f.Flags, f.CRC32, f.UncompressedSize64, hx.Hex(f.Extra),
			hx.Hex([]byte(f.Comment)), f.ModifiedTime, f.ModifiedDate, off, sum)
	}
	if len(rows) == 0 {
		return "ok"
	}
	return "ok " + strings.Join(rows, ",")
}

// hashValues: the tagged digests inside AppxSignature.p7x (independent of signappx.Verify's verdict)
func hashValues(p7x []byte) (string, bool) {
	if !bytes.HasPrefix(p7x, []byte("PKCX")) {
		return "", false
	}
	psd, err := pkcs7.Unmarshal(p7x[4:])
	if err != nil {
		return "", false
	}
	indirect := new(authenticode.SpcIndirectDataContentMsi)
	if err := psd.Content.ContentInfo.Unmarshal(indirect); err != nil {
		return "", false
	}
	hash, err := x509tools.PkixDigestToHashE(indirect.MessageDigest.DigestAlgorithm)
	if err != nil {
		return "", false
	}
	d := indirect.MessageDigest.Digest
	if !bytes.HasPrefix(d, []byte("APPX")) {
		return "", false
	}
	d = d[4:]
	var rows []string
	for len(d) >= 4+hash.Size() {
		rows = append(rows, fmt.Sprintf("%s=%x", strings.ToLower(string(d[:4])), d[4:4+hash.Size()]))
		d = d[4+hash.Size():]
	}
	if len(d) != 0 {
		return "", false
	}
	// order as signed: AXPC AXCD AXCT AXBM [AXCI]
	return strings.Join(rows, ","), true
}

type part struct {
	plain, compd []byte
	crc          uint32
	mt, md       uint16
	found        bool
}

func readPart(zr *zip.Reader, name string) part {
	var p part
	for _, f := range zr.File {
		if f.Name != name {
			continue
		}
		raw, err := f.OpenRaw()
		if err != nil {
			continue
		}
		p.compd, _ = io.ReadAll(raw)
		rc, err := f.Open()
		if err != nil {
			continue
		}
		p.plain, _ = io.ReadAll(rc)
		rc.Close()
		p.crc, p.mt, p.md, p.found = f.CRC32, f.ModifiedTime, f.ModifiedDate, true
	}
	return p
}

// partsOf: the regenerated parts read back from relic's output, as the tail of a `signout` op
func partsOf(z []byte) (string, string, string, bool) {
	zr, err := zip.NewReader(bytes.NewReader(z), int64(len(z)))
	if err != nil {
		return "", "", "", false
	}
	man, bm, ct, cat, sig := readPart(zr, nManifest), readPart(zr, nBlockMap), readPart(zr, nCTypes), readPart(zr, nCatalog), readPart(zr, nSignature)
	if !man.found || !bm.found || !ct.found || !sig.found {
		return "", "", "", false
	}
	for _, p := range []part{bm, ct, sig} {
		if p.mt != man.mt || p.md != man.md {
			return "", "", "", false
		}
	}
	var sb strings.Builder
	fmt.Fprintf(&sb, "%d %d %s %d", man.mt, man.md, hx.Hex(man.plain), man.crc)
	for _, p := range []part{bm, ct, cat, sig} {
		fmt.Fprintf(&sb, " %s %s %d", hx.Hex(p.plain), hx.Hex(p.compd), p.crc)
	}
	hv, ok := hashValues(sig.plain)
	if !ok {
		hv = "?"
	}
	return sb.String(), hv, bmView(bm.plain), true
}

func b2i(b bool) int {
	if b {
		return 1
	}
	return 0
}

var workDir string

func tmpDir() string {
	if workDir == "" {
		d, err := os.MkdirTemp("", "vh-appx-")
		if err != nil {
			panic(err)
		}
		workDir = d
		hx.OnExit(func() { os.RemoveAll(d) })
	}
	return workDir
}

func verifyFile(path string) error {
	f, err := os.Open(path)
	if err != nil {
		return err
	}
	defer f.Close()
	st, err := f.Stat()
	if err != nil {
		return err
	}
	_, err = signappx.Verify(f, st.Size(), false)
	return err
}

// Handle runs one op on the real code.
func Handle(f []string) string {
	if len(f) < 2 {
		return "bad-op"
	}
	switch f[0] {
	case "sign":
		return handleSign(f)
	case "fixture":
		return handleFixture(f)
	case "mutate":
		return handleMutate(f)
	}
	return "bad-op"
}

func handleSign(f []string) string {
	if len(f) < 3 {
		return "bad-op"
	}
	z := hx.MustUnHex(f[1])
	sameKey := strings.HasSuffix(f[2], "s") // "2s": every round with the same key (C08: digests of the regenerated parts do not move)
	rounds := int(hx.Atoi(strings.TrimSuffix(f[2], "s")))
	dir, err := os.MkdirTemp(tmpDir(), "s")
	if err != nil {
		panic(err)
	}
	defer os.RemoveAll(dir)
	var sb strings.Builder
	in := filepath.Join(dir, "in0.appx")
	if err := os.WriteFile(in, z, 0o644); err != nil {
		panic(err)
	}
	cur := z
	core := "ok"
	fmt.Fprintf(&sb, " @@ I %s", view(z))
	for r := 1; r <= rounds; r++ {
		out := filepath.Join(dir, fmt.Sprintf("out%d.appx", r))
		kind := []string{"rsa", "p256"}[(r+len(z))%2]
		if sameKey {
			kind = []string{"rsa", "p256"}[len(z)%2]
		}
		serr := signRecover(in, out, kind)
		if serr != nil {
			now, _ := os.ReadFile(in)
			_, statErr := os.Stat(out)
			cls := serr.Error()
			if !strings.HasPrefix(cls, "panic ") {
				cls = "err " + classify(serr)
			}
			fmt.Fprintf(&sb, " @@ E%d %s @@ U %d", r, strings.ReplaceAll(cls, " ", ":"), b2i(bytes.Equal(now, cur) && statErr != nil))
			if r == 1 {
				core = cls
			}
			break
		}
		o, err := os.ReadFile(out)
		if err != nil {
			panic(err)
		}
		if now, _ := os.ReadFile(in); !bytes.Equal(now, cur) {
			fmt.Fprintf(&sb, " @@ U 0")
		}
		added, hv, bv, ok := partsOf(o)
		if !ok {
			added, hv, bv = "?", "?", "?"
		}
		fmt.Fprintf(&sb, " @@ N%d %s @@ O%d %s @@ H%d %s @@ B%d %s @@ V%d %s @@ G%d %s", r, added, r, hx.Hex(o), r, hv, r, bv, r,
			classifyVerify(verifyFile(out)), r, view(o))
		in, cur = out, o
	}
	return core + sb.String()
}

// signRecover: a panic inside the signing path is an observation, not a harness crash
func signRecover(in, out string, kind string) (err error) {
	defer func() {
		if r := recover(); r != nil {
			err = fmt.Errorf("panic %v", r)
		}
	}()
	return sg.Sign("appx", in, out, sg.Cert(kind), crypto.SHA256, nil)
}

func handleFixture(f []string) string {
	z := hx.MustUnHex(f[1])
	zr, err := zip.NewReader(bytes.NewReader(z), int64(len(z)))
	if err != nil {
		return "err zip"
	}
	sig := readPart(zr, nSignature)
	hv, ok := hashValues(sig.plain)
	if !ok {
		return "err nosig"
	}
	p := filepath.Join(tmpDir(), "fixture.appx")
	if err := os.WriteFile(p, z, 0o644); err != nil {
		panic(err)
	}
	defer os.Remove(p)
	return "ok " + hv + " v=" + classifyVerify(verifyFile(p))
}

// ---------------------------------------------------------------------------------------------
// C02: one-byte mutants of really signed packages

func genMutate(w *bufio.Writer, r *hx.Rng, tier string) {
	n := 6
	if tier == "thorough" {
		n = 40
	}
	dir, err := os.MkdirTemp("", "vh-appxgen-")
	if err != nil {
		panic(err)
	}
	defer os.RemoveAll(dir)
	for i := 0; i < n; i++ {
		b := pkg(r, shPE, tier)
		in, out := filepath.Join(dir, "in.appx"), filepath.Join(dir, "out.appx")
		os.Remove(out)
		if err := os.WriteFile(in, b.z, 0o644); err != nil {
			panic(err)
		}
		if err := sg.Sign("appx", in, out, sg.Cert("p256"), crypto.SHA256, nil); err != nil {
			continue
		}
		o, err := os.ReadFile(out)
		if err != nil {
			panic(err)
		}
		// positions: a few in every region (payload records, regenerated parts, signature record, directory, end records)
		k := 24
		if tier == "thorough" {
			k = 60
		}
		pos := map[int]bool{}
		for len(pos) < k && len(pos) < len(o) {
			var p int
			switch r.Intn(4) {
			case 0:
				p = len(o) - 1 - r.Intn(min(len(o), 98))
			case 1:
				p = len(o) - 1 - r.Intn(min(len(o), 900))
			default:
				p = r.Intn(len(o))
			}
			pos[p] = true
		}
		var ps []int
		for p := range pos {
			ps = append(ps, p)
		}
		sort.Ints(ps)
		var sb strings.Builder
		for _, p := range ps {
			v := o[p] ^ byte(1<<uint(r.Intn(8)))
			fmt.Fprintf(&sb, " %d:%d", p, v)
		}
		fmt.Fprintf(w, "APPX mutate %s %d%s%s\n", hx.Hex(o), len(ps), sb.String(), tabFor(o, nil, nil))
	}
}

func handleMutate(f []string) string {
	if len(f) < 3 {
		return "bad-op"
	}
	z := hx.MustUnHex(f[1])
	k := int(hx.Atoi(f[2]))
	if len(f) < 3+k {
		return "bad-op"
	}
	p := filepath.Join(tmpDir(), "mut.appx")
	defer os.Remove(p)
	var res []string
	for _, m := range f[3 : 3+k] {
		var pos, val int
		if _, err := fmt.Sscanf(m, "%d:%d", &pos, &val); err != nil || pos < 0 || pos >= len(z) {
			return "bad-op"
		}
		g := append([]byte{}, z...)
		g[pos] = byte(val)
		if err := os.WriteFile(p, g, 0o644); err != nil {
			panic(err)
		}
		res = append(res, mutVerdict(p))
	}
	return "ok " + strings.Join(res, " ")
}

func mutVerdict(p string) (v string) {
	defer func() {
		if r := recover(); r != nil {
			v = "panic:" + strings.ReplaceAll(fmt.Sprint(r), " ", "_")
		}
	}()
	if err := verifyFile(p); err != nil {
		return "fail"
	}
	return "pass"
}

/-
  C17 — relic reads and rewrites ZIP structures exactly as standard readers see them.
  Property theorems about `Relic.Model.Zip` (model of /repo/lib/zipslicer) against `Relic.Spec.Zip`
  (APPNOTE as implemented by archive/zip).  Helper lemmas: Relic/Proofs/ZipCodec.lean.

  The property is FALSE on the unchanged tree in five precisely delimited ways (F7a, F7b, F7c, F7d,
  F7e); each is proved here as a negation with a concrete archive that is replayed on the real code by
  the harness (corpus/C17/witnesses.ops).
-/
import Relic.Proofs.ZipCodec
import Relic.Spec.Zip
namespace Relic.Props.C17
open Relic Relic.Zip

/-! ### ZIP64 threshold characterisation (`WriteDirectory`) -/

/-- **zip64_thresholds.** The decision taken by `WriteDirectory`: ZIP64 end records are written iff
    the count, the directory size or the directory offset reach the 16/32-bit sentinels, or the caller
    forces it, or the largest "version needed" among the members (floored at 2.0) is exactly 4.5. -/
theorem zip64_thresholds (count size cdoff minV : Nat) (force : Bool) :
    needZip64 count size cdoff force minV = true ↔
      (count ≥ 0xffff ∨ size ≥ 0xffffffff ∨ cdoff ≥ 0xffffffff ∨ force = true ∨ minV = 45) := by
  simp [needZip64, u16Max, u32Max, or_assoc]

/-- **zip64_records_emitted.** …and that decision is visible in the bytes: the end-of-directory
    output is the 56+20+22-byte ZIP64 form exactly in that case, the bare 22-byte record otherwise. -/
theorem zip64_records_emitted (count size cdoff minV : Nat) (force : Bool) :
    ((endRecords count size cdoff force minV).length = 98 ↔
      (count ≥ 0xffff ∨ size ≥ 0xffffffff ∨ cdoff ≥ 0xffffffff ∨ force = true ∨ minV = 45)) ∧
    ((endRecords count size cdoff force minV).length = 22 ↔
      ¬ (count ≥ 0xffff ∨ size ≥ 0xffffffff ∨ cdoff ≥ 0xffffffff ∨ force = true ∨ minV = 45)) := by
  rw [← zip64_thresholds]
  unfold endRecords
  cases h : needZip64 count size cdoff force minV <;>
    simp [encEnd, encEnd64, encLoc64]

/-- the 4.5 clause is an equality, not a threshold: a member asking for version 6.3 does not switch
    ZIP64 records on, a member asking for exactly 4.5 does (even in a tiny archive). -/
theorem zip64_version_is_equality :
    needZip64 1 50 60 false 63 = false ∧ needZip64 1 50 60 false 45 = true := by decide

/-! ### descriptor width inference (`readDataDesc`) — F7a -/

/-- a data descriptor with signature, sizes on 32 (`wide = false`) or 64 bits -/
def descBytes (wide : Bool) (crc cs us : Nat) : Bytes :=
  leBytes 4 sigDesc ++ (leBytes 4 crc ++
    (if wide then leBytes 8 cs ++ leBytes 8 us else leBytes 4 cs ++ leBytes 4 us))

/-- **desc_width_inference.** `readDataDesc` looks at the first 16 bytes of the descriptor and
    decides "64-bit" iff the directory's uncompressed size is ≥ 0xffffffff or one of the two 32-bit
    words differs from the directory sizes.  For every CRC and all sizes below the 32-bit sentinel the
    decision is the true width **iff** `usize ≠ 0` or the descriptor really is the 16-byte form:
    the 24-byte descriptor of every empty member is misread (whatever its compressed size). -/
theorem desc_width_inference (wide : Bool) (crc cs us : Nat) (hcs : cs < 2 ^ 32) (hus : us < 2 ^ 32 - 1) :
    inferWide cs us ((descBytes wide crc cs us).take 16) = wide ↔ (us ≠ 0 ∨ wide = false) := by
  have l4 : ∀ n, (leBytes 4 n).length = 4 := fun n => leBytes_length 4 n
  have vcs : leVal (leBytes 4 cs) = cs := leVal_leBytes_of_lt 4 cs (by omega)
  have vus : leVal (leBytes 4 us) = us := leVal_leBytes_of_lt 4 us (by omega)
  have mcs : cs % 2 ^ 32 = cs := Nat.mod_eq_of_lt hcs
  have mus : us % 2 ^ 32 = us := Nat.mod_eq_of_lt (by omega)
  cases wide with
  | false =>
    have t : (descBytes false crc cs us).take 16 =
        leBytes 4 sigDesc ++ (leBytes 4 crc ++ (leBytes 4 cs ++ leBytes 4 us)) := by
      apply List.take_of_length_le
      simp [descBytes]
    have f8 : fld (leBytes 4 sigDesc ++ (leBytes 4 crc ++ (leBytes 4 cs ++ leBytes 4 us))) 8 4 = cs := by
      rw [show (8 : Nat) = 4 + 4 from rfl, fld_skip _ _ 4 4 4 (l4 _), show (4 : Nat) = 4 + 0 from rfl,
        fld_skip _ _ 4 0 (4 + 0) (l4 _), fld_head _ _ _ (l4 _), vcs]
    have f12 : fld (leBytes 4 sigDesc ++ (leBytes 4 crc ++ (leBytes 4 cs ++ leBytes 4 us))) 12 4 = us := by
      rw [show (12 : Nat) = 4 + 8 from rfl, fld_skip _ _ 4 8 4 (l4 _), show (8 : Nat) = 4 + 4 from rfl,
        fld_skip _ _ 4 4 4 (l4 _), show (4 : Nat) = 4 + 0 from rfl, fld_skip _ _ 4 0 (4 + 0) (l4 _),
        fld_all _ _ (l4 _), vus]
    rw [t]
    unfold inferWide
    rw [f8, f12, mcs, mus]
    simp [u32Max]
    omega
  | true =>
    have e8 : leBytes 8 cs = leBytes 4 cs ++ leBytes 4 (cs / 256 ^ 4) := leBytes_add 4 4 cs
    have z : cs / 256 ^ 4 = 0 := Nat.div_eq_of_lt (by omega)
    have t : (descBytes true crc cs us).take 16 =
        leBytes 4 sigDesc ++ (leBytes 4 crc ++ (leBytes 4 cs ++ leBytes 4 0)) := by
      have : descBytes true crc cs us =
          (leBytes 4 sigDesc ++ (leBytes 4 crc ++ (leBytes 4 cs ++ leBytes 4 0))) ++ leBytes 8 us := by
        simp [descBytes, e8, z]
      rw [this]
      exact List.take_left' (by simp)
    have f8 : fld (leBytes 4 sigDesc ++ (leBytes 4 crc ++ (leBytes 4 cs ++ leBytes 4 0))) 8 4 = cs := by
      rw [show (8 : Nat) = 4 + 4 from rfl, fld_skip _ _ 4 4 4 (l4 _), show (4 : Nat) = 4 + 0 from rfl,
        fld_skip _ _ 4 0 (4 + 0) (l4 _), fld_head _ _ _ (l4 _), vcs]
    have f12 : fld (leBytes 4 sigDesc ++ (leBytes 4 crc ++ (leBytes 4 cs ++ leBytes 4 0))) 12 4 = 0 := by
      rw [show (12 : Nat) = 4 + 8 from rfl, fld_skip _ _ 4 8 4 (l4 _), show (8 : Nat) = 4 + 4 from rfl,
        fld_skip _ _ 4 4 4 (l4 _), show (4 : Nat) = 4 + 0 from rfl, fld_skip _ _ 4 0 (4 + 0) (l4 _),
        fld_all _ _ (l4 _)]
      exact leVal_leBytes_of_lt 4 0 (by omega)
    rw [t]
    unfold inferWide
    rw [f8, f12, mcs, mus]
    simp [u32Max]
    omega

example : inferWide 7 0 ((descBytes true 0xdeadbeef 7 0).take 16) = false := by decide
example : inferWide 7 3 ((descBytes true 0xdeadbeef 7 3).take 16) = true := by decide

set_option maxRecDepth 1000000

/-! ### witnesses (each is also an op in corpus/C17/witnesses.ops, replayed on the real code) -/

/-- one stored member `a` = "x" -/
def zPlain : Bytes := [80, 75, 3, 4, 20, 0, 0, 0, 0, 0, 0, 0, 0, 0, 131, 22, 220, 140, 1, 0, 0, 0, 1, 0, 0, 0, 1, 0, 0, 0, 97, 120, 80, 75, 1, 2, 20, 0, 20, 0, 0, 0, 0, 0, 0, 0, 0, 0, 131, 22, 220, 140, 1, 0, 0, 0, 1, 0, 0, 0, 1, 0, 0, 0, 0, 0, 0, 0, 0, 0, 0, 0, 0, 0, 0, 0, 0, 0, 97, 80, 75, 5, 6, 0, 0, 0, 0, 1, 0, 1, 0, 47, 0, 0, 0, 32, 0, 0, 0, 0, 0]
/-- the same with the archive comment "hi" -/
def zComment : Bytes := [80, 75, 3, 4, 20, 0, 0, 0, 0, 0, 0, 0, 0, 0, 131, 22, 220, 140, 1, 0, 0, 0, 1, 0, 0, 0, 1, 0, 0, 0, 97, 120, 80, 75, 1, 2, 20, 0, 20, 0, 0, 0, 0, 0, 0, 0, 0, 0, 131, 22, 220, 140, 1, 0, 0, 0, 1, 0, 0, 0, 1, 0, 0, 0, 0, 0, 0, 0, 0, 0, 0, 0, 0, 0, 0, 0, 0, 0, 97, 80, 75, 5, 6, 0, 0, 0, 0, 1, 0, 1, 0, 47, 0, 0, 0, 32, 0, 0, 0, 2, 0, 104, 105]
/-- the empty archive -/
def zEmptyArchive : Bytes := [80, 75, 5, 6, 0, 0, 0, 0, 0, 0, 0, 0, 0, 0, 0, 0, 0, 0, 0, 0, 0, 0]
/-- member `a` = "x" with a 12-byte descriptor (no signature) -/
def zNoSig : Bytes := [80, 75, 3, 4, 20, 0, 8, 0, 0, 0, 0, 0, 0, 0, 0, 0, 0, 0, 0, 0, 0, 0, 0, 0, 0, 0, 1, 0, 0, 0, 97, 120, 131, 22, 220, 140, 1, 0, 0, 0, 1, 0, 0, 0, 80, 75, 1, 2, 20, 0, 20, 0, 8, 0, 0, 0, 0, 0, 0, 0, 131, 22, 220, 140, 1, 0, 0, 0, 1, 0, 0, 0, 1, 0, 0, 0, 0, 0, 0, 0, 0, 0, 0, 0, 0, 0, 0, 0, 0, 0, 97, 80, 75, 5, 6, 0, 0, 0, 0, 1, 0, 1, 0, 47, 0, 0, 0, 44, 0, 0, 0, 0, 0]
/-- empty member `a` with a 24-byte descriptor (what `Mangler.NewFile("a", nil)` writes), then `b` = "x" -/
def zEmpty24 : Bytes := [80, 75, 3, 4, 45, 0, 8, 0, 0, 0, 0, 0, 0, 0, 0, 0, 0, 0, 0, 0, 0, 0, 0, 0, 0, 0, 1, 0, 0, 0, 97, 80, 75, 7, 8, 0, 0, 0, 0, 0, 0, 0, 0, 0, 0, 0, 0, 0, 0, 0, 0, 0, 0, 0, 0, 80, 75, 3, 4, 20, 0, 0, 0, 0, 0, 0, 0, 0, 0, 131, 22, 220, 140, 1, 0, 0, 0, 1, 0, 0, 0, 1, 0, 0, 0, 98, 120, 80, 75, 1, 2, 20, 0, 45, 0, 8, 0, 0, 0, 0, 0, 0, 0, 0, 0, 0, 0, 0, 0, 0, 0, 0, 0, 0, 0, 1, 0, 0, 0, 0, 0, 0, 0, 0, 0, 0, 0, 0, 0, 0, 0, 0, 0, 97, 80, 75, 1, 2, 20, 0, 20, 0, 0, 0, 0, 0, 0, 0, 0, 0, 131, 22, 220, 140, 1, 0, 0, 0, 1, 0, 0, 0, 1, 0, 0, 0, 0, 0, 0, 0, 0, 0, 0, 0, 0, 0, 55, 0, 0, 0, 98, 80, 75, 5, 6, 0, 0, 0, 0, 2, 0, 2, 0, 94, 0, 0, 0, 87, 0, 0, 0, 0, 0]
/-- member `a` = "x" with a 24-byte descriptor, then `b` = "x" -/
def zOne24 : Bytes := [80, 75, 3, 4, 45, 0, 8, 0, 0, 0, 0, 0, 0, 0, 0, 0, 0, 0, 0, 0, 0, 0, 0, 0, 0, 0, 1, 0, 0, 0, 97, 120, 80, 75, 7, 8, 131, 22, 220, 140, 1, 0, 0, 0, 0, 0, 0, 0, 1, 0, 0, 0, 0, 0, 0, 0, 80, 75, 3, 4, 20, 0, 0, 0, 0, 0, 0, 0, 0, 0, 131, 22, 220, 140, 1, 0, 0, 0, 1, 0, 0, 0, 1, 0, 0, 0, 98, 120, 80, 75, 1, 2, 20, 0, 45, 0, 8, 0, 0, 0, 0, 0, 0, 0, 131, 22, 220, 140, 1, 0, 0, 0, 1, 0, 0, 0, 1, 0, 0, 0, 0, 0, 0, 0, 0, 0, 0, 0, 0, 0, 0, 0, 0, 0, 97, 80, 75, 1, 2, 20, 0, 20, 0, 0, 0, 0, 0, 0, 0, 0, 0, 131, 22, 220, 140, 1, 0, 0, 0, 1, 0, 0, 0, 1, 0, 0, 0, 0, 0, 0, 0, 0, 0, 0, 0, 0, 0, 56, 0, 0, 0, 98, 80, 75, 5, 6, 0, 0, 0, 0, 2, 0, 2, 0, 94, 0, 0, 0, 88, 0, 0, 0, 0, 0]
/-- member `a` = "x" whose central header offset is 0xffffffff with an 8-byte ZIP64 extra holding only the offset -/
def zPartial : Bytes := [80, 75, 3, 4, 20, 0, 0, 0, 0, 0, 0, 0, 0, 0, 131, 22, 220, 140, 1, 0, 0, 0, 1, 0, 0, 0, 1, 0, 0, 0, 97, 120, 80, 75, 1, 2, 20, 0, 45, 0, 0, 0, 0, 0, 0, 0, 0, 0, 131, 22, 220, 140, 1, 0, 0, 0, 1, 0, 0, 0, 1, 0, 12, 0, 0, 0, 0, 0, 0, 0, 0, 0, 0, 0, 255, 255, 255, 255, 97, 1, 0, 8, 0, 0, 0, 0, 0, 0, 0, 0, 0, 80, 75, 5, 6, 0, 0, 0, 0, 1, 0, 1, 0, 59, 0, 0, 0, 32, 0, 0, 0, 0, 0]

def rd (z : Bytes) : Rd := ⟨z, false, 0⟩

/-- "the result is `ok a` and `p a`" as a Boolean, so that closed instances are decided by evaluation -/
def okAnd {α} (r : Res α) (p : α → Bool) : Bool := match r with | .ok a => p a | _ => false
def someAnd {α} (o : Option α) (p : α → Bool) : Bool := match o with | some a => p a | none => false

theorem okAnd_elim {α} {r : Res α} {p : α → Bool} (h : okAnd r p = true) : ∃ a, r = .ok a ∧ p a = true := by
  cases r <;> simp_all [okAnd]
theorem someAnd_elim {α} {o : Option α} {p : α → Bool} (h : someAnd o p = true) : ∃ a, o = some a ∧ p a = true := by
  cases o <;> simp_all [someAnd]

/-- one row of the member table both sides are compared on -/
structure Row where
  name : Bytes
  method : Nat
  flags : Nat
  crc : Nat
  csize : Nat
  usize : Nat
  hoff : Nat
  extra : Bytes
  comment : Bytes
  deriving DecidableEq, Repr

def modelTable (d : Directory) : List Row :=
  d.files.map fun f => ⟨f.name, f.method, f.flags, f.crc, f.csize, f.usize, f.offset, f.extra, f.comment⟩

def specTable (a : SpecZip.Archive) : List Row :=
  a.members.map fun m => ⟨m.entry.name, m.entry.method, m.entry.flags, m.entry.crc, m.entry.csize, m.entry.usize,
    m.entry.hoff, m.entry.extra, m.entry.comment⟩

/-- per member: data offset and the extent relic assigns (`GetTotalSize`) -/
def modelExtents (z : Bytes) (d : Directory) : List (Option (Nat × Nat)) :=
  d.files.map fun f => match getTotalSize (rd z) f with
    | .ok (m, _) => some (m.dataOff, m.total)
    | _ => none

/-- per member: data offset and the extent under the contiguous reading of the specification -/
def specExtents (a : SpecZip.Archive) : List (Option (Nat × Nat)) :=
  a.members.map fun m =>
    match m.descWidths, SpecZip.trueWidth a m with
    | [], _ => some (m.dataOff, m.dataOff + m.entry.csize - m.entry.hoff)
    | _, some w => some (m.dataOff, m.dataOff + m.entry.csize + w - m.entry.hoff)
    | _, none => none

/-- the property for one archive: relic reads it, and sees the members the specification sees, at the
    same places -/
def ReadsAsSpec (z : Bytes) : Prop :=
  ∃ a d, SpecZip.parse z = some a ∧ read (rd z) = .ok d ∧ modelTable d = specTable a ∧
    modelExtents z d = specExtents a

/-- the full statement of the read half of C17 (FALSE on the unchanged tree) -/
def read_agrees_spec_full : Prop := ∀ z, SpecZip.valid z → ReadsAsSpec z

/-- the clauses under which it is claimed -/
def relicReadable (z : Bytes) : Prop :=
  ∃ a, SpecZip.parse z = some a ∧ SpecZip.noComment a z = true ∧ SpecZip.descSigned a = true ∧
    SpecZip.zip64Fixed a = true ∧ (a.members.all fun m => !(m.entry.usize == 0 && SpecZip.trueWidth a m == some 24)) = true

/-- NOT PROVED (kept as a statement): the read half under `relicReadable`.  Proved below: the
    width decision (`desc_width_inference`), the ZIP64 decision, and the statement on concrete
    archives; checked on every run by differential execution (relic = model, relic = archive/zip on
    every generated archive `Spec.Zip` calls valid): everything else, including the agreement of the
    two central-entry parsers. -/
def read_agrees_spec_readable : Prop := ∀ z, SpecZip.valid z → relicReadable z → ReadsAsSpec z

/-- **f7c_comment_refused.** A valid archive with a comment is not found. -/
theorem f7c_comment_refused :
    SpecZip.valid zComment ∧ read (rd zComment) = .err "notfound" ∧ ¬ relicReadable zComment := by
  refine ⟨by decide, by decide, ?_⟩
  rintro ⟨a, h, hc, -⟩
  have hh : someAnd (SpecZip.parse zComment) (fun a => !SpecZip.noComment a zComment) = true := by decide
  obtain ⟨a', ha', hn⟩ := someAnd_elim hh
  rw [h] at ha'
  cases ha'
  simp [hc] at hn

/-- **f7c_empty_archive_refused.** The valid empty archive (22 bytes) is an I/O error. -/
theorem f7c_empty_archive_refused :
    SpecZip.valid zEmptyArchive ∧ read (rd zEmptyArchive) = .err "io" := by decide

/-- **f7d_nosig_refused.** A descriptor without the optional signature: the directory is read, the
    member cannot be located (`GetTotalSize`, hence `Open`, `Dump`, `Mangle` fail with "nosig"). -/
theorem f7d_nosig_refused :
    SpecZip.valid zNoSig ∧
    okAnd (read (rd zNoSig)) (fun d => decide (modelExtents zNoSig d = [none]) &&
      decide (d.files.map (fun f => (getTotalSize (rd zNoSig) f).isOk) = [false])) = true ∧
    rewriteKeep zNoSig [] false = .err "nosig" := by decide

/-- **f7e_partial_zip64_refused.** A ZIP64 extra holding only the needed field (APPNOTE 4.5.3). -/
theorem f7e_partial_zip64_refused :
    SpecZip.valid zPartial ∧ read (rd zPartial) = .err "missingzip64" := by decide

/-- **f7a_empty24_misread.** The empty member with a 24-byte descriptor: the member table agrees
    with the specification, but relic's extent is 47 bytes where the member occupies 55 (the next local
    header is at 55); the non-empty twin is measured correctly. -/
theorem f7a_empty24_misread :
    SpecZip.valid zEmpty24 ∧
    okAnd (read (rd zEmpty24)) (fun d => someAnd (SpecZip.parse zEmpty24) fun a =>
      decide (modelTable d = specTable a) && decide (modelExtents zEmpty24 d = [some (31, 47), some (86, 32)]) &&
      decide (specExtents a = [some (31, 55), some (86, 32)])) = true ∧
    okAnd (read (rd zOne24)) (fun d => someAnd (SpecZip.parse zOne24) fun a =>
      decide (modelExtents zOne24 d = specExtents a) &&
      decide (modelExtents zOne24 d = [some (31, 56), some (87, 32)])) = true := by decide

/-- **not_read_agrees_spec_full.** -/
theorem not_read_agrees_spec_full : ¬ read_agrees_spec_full := by
  intro h
  obtain ⟨a, d, -, hr, -⟩ := h zComment (by decide)
  have : read (rd zComment) = .err "notfound" := by decide
  rw [this] at hr
  cases hr

/-! ### rewriting — the write half -/

/-- members laid out back to back from offset 0 up to the central directory, in directory order
    (descriptor widths under the contiguous reading) — the layout `AddFile` assumes -/
def contigFrom (a : SpecZip.Archive) : Nat → List SpecZip.Member → Bool
  | pos, [] => pos == a.ends.cdOff
  | pos, m :: ms =>
    m.entry.hoff == pos &&
    match m.descWidths with
    | [] => contigFrom a (m.dataOff + m.entry.csize) ms
    | _ => match SpecZip.trueWidth a m with
      | some w => contigFrom a (m.dataOff + m.entry.csize + w) ms
      | none => false

/-- the full statement for `Mangle`+`MakePatch` without additions (FALSE on the unchanged tree) -/
def write_read_roundtrip_full : Prop :=
  ∀ z a mask force out, SpecZip.parse z = some a → contigFrom a 0 a.members = true →
    rewriteKeep z mask force = .ok out → SpecZip.valid out

/-- what remains to be proved (NOT PROVED; checked dynamically on every run, rounds 2 and 3):
    the same under `relicReadable` (which excludes the empty member with a 24-byte descriptor). -/
def write_read_roundtrip_readable : Prop :=
  ∀ z a mask force out, SpecZip.parse z = some a → contigFrom a 0 a.members = true → relicReadable z →
    rewriteKeep z mask force = .ok out → SpecZip.valid out

/-- **rewrite_after_empty24_breaks (F7a, the consequence).** `zEmpty24` is valid, contiguous, and
    its member table is read correctly; rewriting it with nothing deleted puts the directory 8 bytes
    before where the end records say (and, the member asking for version 4.5, ZIP64 records are written
    whose locator is 8 short as well): the result is not a valid ZIP and relic itself no longer finds
    the directory.  This is the second VSIX/AppX signing. -/
theorem rewrite_after_empty24_breaks :
    someAnd (SpecZip.parse zEmpty24) (fun a => contigFrom a 0 a.members) = true ∧
    okAnd (rewriteKeep zEmpty24 [] false) (fun out => !decide (SpecZip.valid out) &&
      decide (read (rd out) = .err "notfound")) = true := by decide

/-- **not_write_read_roundtrip_full.** -/
theorem not_write_read_roundtrip_full : ¬ write_read_roundtrip_full := by
  intro h
  obtain ⟨out, ho, hp⟩ := okAnd_elim rewrite_after_empty24_breaks.2
  obtain ⟨a, ha, hc⟩ := someAnd_elim rewrite_after_empty24_breaks.1
  have hv := h zEmpty24 a [] false out ha hc ho
  simp [hv] at hp

/-- **rewrite_plain_roundtrip.** Non-vacuity of the write half: the plain archive and the non-empty
    24-byte-descriptor archive are rewritten (raw re-emission, re-synthesis after a deletion, forced
    ZIP64 records) to valid archives with the expected member tables. -/
theorem rewrite_plain_roundtrip :
    okAnd (rewriteKeep zPlain [] false) (fun out => decide (SpecZip.valid out) &&
      decide ((SpecZip.parse out).map specTable = (SpecZip.parse zPlain).map specTable)) = true ∧
    okAnd (rewriteKeep zOne24 [] true) (fun out => decide (SpecZip.valid out) &&
      decide ((SpecZip.parse out).map specTable = (SpecZip.parse zOne24).map specTable)) = true ∧
    okAnd (rewriteKeep zOne24 [true] false) (fun out => decide (SpecZip.valid out) &&
      decide ((SpecZip.parse out).map (fun a => (specTable a).map (·.name)) = some [[98]])) = true := by decide

/-! ### `GetOriginalDirectory` — F7b -/

/-- the full statement: an unmodified directory is re-emitted byte for byte (FALSE) -/
def reemit_unmodified_full : Prop :=
  ∀ z d, SpecZip.valid z → read (rd z) = .ok d →
    ∃ cd eod, getOriginalDirectory d = .ok (cd, eod) ∧ cd ++ eod = z.drop d.dirLoc

/-- **getOriginalDirectory_always_panics.** Whatever was read. -/
theorem getOriginalDirectory_always_panics (d : Directory) :
    getOriginalDirectory d = .err "newzip" ∨ getOriginalDirectory d = .panic "nil-writer" := by
  unfold getOriginalDirectory; split <;> simp

/-- **not_reemit_unmodified_full.** -/
theorem not_reemit_unmodified_full : ¬ reemit_unmodified_full := by
  intro h
  have hr : okAnd (read (rd zPlain)) (fun _ => true) = true := by decide
  obtain ⟨d, hd, -⟩ := okAnd_elim hr
  obtain ⟨cd, eod, hg, -⟩ := h zPlain d (by decide) hd
  rcases getOriginalDirectory_always_panics d with e | e <;> rw [e] at hg <;> cases hg

/-- **reemit_spec_reproduces.** What the function is documented to do (`originalDirectorySpec`,
    the behaviour of fix-F7b.patch) does reproduce the original tail, ZIP64 or not. -/
theorem reemit_spec_reproduces :
    okAnd (read (rd zPlain)) (fun d => okAnd (originalDirectorySpec d) fun p =>
      decide (p.1 ++ p.2 = zPlain.drop d.dirLoc)) = true ∧
    okAnd (rewriteKeep zOne24 [] true) (fun z => okAnd (read (rd z)) fun d =>
      okAnd (originalDirectorySpec d) fun p => decide (p.1 ++ p.2 = z.drop d.dirLoc) && decide (p.2.length = 98)) = true := by
  decide

/-! ### non-vacuity -/

example : ReadsAsSpec zPlain := by
  have h : okAnd (read (rd zPlain)) (fun d => someAnd (SpecZip.parse zPlain) fun a =>
      decide (modelTable d = specTable a) && decide (modelExtents zPlain d = specExtents a)) = true := by decide
  obtain ⟨d, hd, hq⟩ := okAnd_elim h
  obtain ⟨a, ha, hr⟩ := someAnd_elim hq
  simp only [Bool.and_eq_true, decide_eq_true_eq] at hr
  exact ⟨a, d, ha, hd, hr.1, hr.2⟩
example : relicReadable zOne24 := by
  have h : someAnd (SpecZip.parse zOne24) (fun a => SpecZip.noComment a zOne24 && SpecZip.descSigned a &&
      SpecZip.zip64Fixed a && (a.members.all fun m => !(m.entry.usize == 0 && SpecZip.trueWidth a m == some 24))) = true := by
    decide
  obtain ⟨a, ha, hr⟩ := someAnd_elim h
  simp only [Bool.and_eq_true] at hr
  exact ⟨a, ha, hr.1.1.1, hr.1.1.2, hr.1.2, hr.2⟩
example : needZip64 0xffff 0 0 false 20 = true ∧ needZip64 0xfffe 0xfffffffe 0xfffffffe false 20 = false := by decide

end Relic.Props.C17

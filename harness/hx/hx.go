// Package hx: shared helpers of the verification harness (PRNG, hex, line IO).
package hx

import (
	"bufio"
	"encoding/hex"
	"fmt"
	"os"
	"strconv"
	"strings"
)

// SplitMix64: every random choice of the harness derives from one of these.
type Rng struct{ s uint64 }

func NewRng(seed uint64) *Rng {
	// run the seed through the SplitMix64 finaliser first: with the raw seed as state, the stream of
	// seed k+1 would be the stream of seed k shifted by one draw
	z := seed + 0x9e3779b97f4a7c15
	z = (z ^ (z >> 30)) * 0xbf58476d1ce4e5b9
	z = (z ^ (z >> 27)) * 0x94d049bb133111eb
	return &Rng{s: z ^ (z >> 31)}
}

func (r *Rng) U64() uint64 {
	r.s += 0x9e3779b97f4a7c15
	z := r.s
	z = (z ^ (z >> 30)) * 0xbf58476d1ce4e5b9
	z = (z ^ (z >> 27)) * 0x94d049bb133111eb
	return z ^ (z >> 31)
}

// Intn returns a value in [0,n)
func (r *Rng) Intn(n int) int {
	if n <= 0 {
		return 0
	}
	return int(r.U64() % uint64(n))
}

func (r *Rng) Bool() bool { return r.U64()&1 == 1 }

func (r *Rng) Pick(xs ...int) int { return xs[r.Intn(len(xs))] }

func (r *Rng) Bytes(n int) []byte {
	b := make([]byte, n)
	for i := range b {
		b[i] = byte(r.U64())
	}
	return b
}

func Hex(b []byte) string {
	if len(b) == 0 {
		return "-"
	}
	return hex.EncodeToString(b)
}

func UnHex(s string) ([]byte, error) {
	if s == "-" {
		return nil, nil
	}
	return hex.DecodeString(s)
}

func MustUnHex(s string) []byte {
	b, err := UnHex(s)
	if err != nil {
		panic("bad hex in op: " + err.Error())
	}
	return b
}

func Atoi(s string) int64 {
	v, err := strconv.ParseInt(s, 10, 64)
	if err != nil {
		panic("bad int in op: " + s)
	}
	return v
}

// Seed from VERIF_SEED (default 1)
func Seed() uint64 {
	if s := os.Getenv("VERIF_SEED"); s != "" {
		if v, err := strconv.ParseUint(s, 10, 64); err == nil {
			return v
		}
	}
	return 1
}

func Tier() string {
	if t := os.Getenv("VERIF_TIER"); t == "thorough" {
		return t
	}
	return "quick"
}

// EachLine reads ops from stdin, calls f on the fields after the property tag,
// prints its result flushed per line. A panic in f is reported as "panic <value>".
func EachLine(f func(fields []string) string) {
	in := bufio.NewReaderSize(os.Stdin, 1<<20)
	out := bufio.NewWriterSize(os.Stdout, 1<<16)
	defer out.Flush()
	for {
		line, err := in.ReadString('\n')
		if len(line) > 0 {
			fields := strings.Fields(line)
			res := safely(f, fields)
			fmt.Fprintln(out, res)
			out.Flush()
		}
		if err != nil {
			return
		}
	}
}

var exitFuncs []func()

// OnExit registers a clean-up to run when the op loop ends (temp dirs of lazily initialised handlers).
func OnExit(f func()) { exitFuncs = append(exitFuncs, f) }

// RunOnExit runs the registered clean-ups.
func RunOnExit() {
	for _, f := range exitFuncs {
		f()
	}
	exitFuncs = nil
}

// Dispatch reads ops from stdin and routes each by its first token.
func Dispatch(handlers map[string]func([]string) string) {
	in := bufio.NewReaderSize(os.Stdin, 1<<22)
	out := bufio.NewWriterSize(os.Stdout, 1<<16)
	defer out.Flush()
	defer RunOnExit()
	for {
		line, err := in.ReadString('\n')
		if len(line) > 0 {
			fields := strings.Fields(line)
			res := "bad-op"
			if len(fields) > 0 {
				if h := handlers[fields[0]]; h != nil {
					res = safely(h, fields)
				}
			}
			fmt.Fprintln(out, res)
			out.Flush()
		}
		if err != nil {
			return
		}
	}
}

func safely(f func([]string) string, fields []string) (res string) {
	defer func() {
		if r := recover(); r != nil {
			res = fmt.Sprintf("panic %v", strings.ReplaceAll(fmt.Sprint(r), "\n", " "))
		}
	}()
	if len(fields) < 1 {
		return "bad-op"
	}
	return f(fields[1:])
}

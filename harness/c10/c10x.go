// c10x.go: the parts of time-stamping around the client (first op token TSX): how a key's configuration selects a
// pool of authorities (real internal/signinit.Init over a YAML configuration read by config.ReadFile), the rate
// limiter (real lib/pkcs9/ratelimit around a scripted inner time-stamper and through tsclient.New), the memcache key
// (real lib/pkcs9/timestampcache against a fake memcached that records the keys it is asked for), and every attach
// site through relic's real signer modules with harness-owned keys and the fake authority of c10.go, followed by the
// real verifiers.  Same package as c10.go: the PKI, the fake authority and the error classification are shared.
package c10

import (
	"bufio"
	"bytes"
	"context"
	"crypto"
	"crypto/ecdsa"
	"crypto/elliptic"
	"crypto/rand"
	"crypto/rsa"
	"crypto/sha256"
	"crypto/x509"
	"crypto/x509/pkix"
	"encoding/asn1"
	"encoding/base64"
	"encoding/hex"
	"encoding/json"
	"encoding/pem"
	"errors"
	"fmt"
	"io"
	"log"
	"math/big"
	"net"
	"net/url"
	"os"
	"path/filepath"
	"sort"
	"strconv"
	"strings"
	"sync"
	"time"

	"github.com/rs/zerolog"

	"github.com/sassoftware/relic/v8/cmdline/shared"
	"github.com/sassoftware/relic/v8/config"
	"github.com/sassoftware/relic/v8/lib/appmanifest"
	"github.com/sassoftware/relic/v8/lib/certloader"
	"github.com/sassoftware/relic/v8/lib/pkcs7"
	"github.com/sassoftware/relic/v8/lib/pkcs9"
	"github.com/sassoftware/relic/v8/lib/pkcs9/ratelimit"
	"github.com/sassoftware/relic/v8/lib/pkcs9/tsclient"
	"github.com/sassoftware/relic/v8/signers"
	"github.com/sassoftware/relic/v8/token/filetoken"
	"github.com/sassoftware/relic/v8/verifhooks"
	tsxhooks "github.com/sassoftware/relic/v8/verifhooks/tsx"

	"verifharness/hx"
	"verifharness/sg"
)

var xOnce sync.Once

func xInit() {
	xOnce.Do(func() {
		if tsa == nil {
			zerolog.SetGlobalLevel(zerolog.Disabled)
			log.SetFlags(0)
			log.SetOutput(logs)
			initPKI()
			startTSA()
		}
	})
}

func xName(s string) string {
	if s == "-" {
		return ""
	}
	return string(hx.MustUnHex(s))
}

// ---------------------------------------------------------------------------------------------
// a fake memcached that records what it is asked

type xMemcache struct {
	ln      net.Listener
	mu      sync.Mutex
	data    map[string][]byte
	gets    []string
	sets    []string
	exps    []string
	foreign []byte // if set: every get is answered with this value
}

func startXMemcache() *xMemcache {
	ln, err := net.Listen("tcp", "127.0.0.1:0")
	if err != nil {
		panic(err)
	}
	m := &xMemcache{ln: ln, data: map[string][]byte{}}
	go func() {
		for {
			c, err := ln.Accept()
			if err != nil {
				return
			}
			go m.serve(c)
		}
	}()
	return m
}

func (m *xMemcache) addr() string { return m.ln.Addr().String() }

func (m *xMemcache) serve(c net.Conn) {
	defer c.Close()
	rd := bufio.NewReader(c)
	for {
		line, err := rd.ReadString('\n')
		if err != nil {
			return
		}
		f := strings.Fields(line)
		if len(f) == 0 {
			continue
		}
		switch f[0] {
		case "get", "gets":
			m.mu.Lock()
			for _, k := range f[1:] {
				m.gets = append(m.gets, k)
				v, ok := m.data[k]
				if m.foreign != nil {
					v, ok = m.foreign, true
				}
				if ok {
					fmt.Fprintf(c, "VALUE %s 0 %d 1\r\n", k, len(v))
					c.Write(v)
					c.Write([]byte("\r\n"))
				}
			}
			m.mu.Unlock()
			c.Write([]byte("END\r\n"))
		case "set":
			n, _ := strconv.Atoi(f[4])
			buf := make([]byte, n+2)
			if _, err := io.ReadFull(rd, buf); err != nil {
				return
			}
			m.mu.Lock()
			m.data[f[1]] = buf[:n]
			m.sets = append(m.sets, f[1])
			m.exps = append(m.exps, f[3])
			m.mu.Unlock()
			c.Write([]byte("STORED\r\n"))
		default:
			c.Write([]byte("ERROR\r\n"))
		}
	}
}

func (m *xMemcache) snapshot() (gets, sets, exps []string, n int) {
	m.mu.Lock()
	defer m.mu.Unlock()
	return append([]string{}, m.gets...), append([]string{}, m.sets...), append([]string{}, m.exps...), len(m.data)
}

// ---------------------------------------------------------------------------------------------
// recording wrapper: the request the attach site made and the token it was given

type xrec struct {
	inner pkcs9.Timestamper
	mu    sync.Mutex
	reqs  []pkcs9.Request
	toks  []*pkcs7.ContentInfoSignedData
	errs  []error
}

func (r *xrec) Timestamp(ctx context.Context, req *pkcs9.Request) (*pkcs7.ContentInfoSignedData, error) {
	cp := *req
	cp.EncryptedDigest = append([]byte{}, req.EncryptedDigest...)
	tok, err := r.inner.Timestamp(ctx, req)
	r.mu.Lock()
	r.reqs = append(r.reqs, cp)
	r.toks = append(r.toks, tok)
	r.errs = append(r.errs, err)
	r.mu.Unlock()
	return tok, err
}

func (r *xrec) lastErr() error {
	r.mu.Lock()
	defer r.mu.Unlock()
	if len(r.errs) == 0 {
		return nil
	}
	return r.errs[len(r.errs)-1]
}

func xclassify(err error) string {
	if err == nil {
		return "nil"
	}
	s := err.Error()
	switch {
	case strings.Contains(s, "No timestamp section"):
		return "no-timestamp-config"
	case strings.Contains(s, "timestamp.namedurls["):
		return "empty-named"
	case strings.Contains(s, "timestamp.msurls is empty"):
		return "empty-ms"
	case strings.Contains(s, "timestamp.urls is empty"):
		return "empty-urls"
	case strings.Contains(s, "would exceed context deadline"):
		return "rate-deadline"
	case strings.Contains(s, "context deadline exceeded"):
		return "deadline"
	}
	return classify(err)
}

func xSignErrClass(err error, clientErr error) string {
	if clientErr != nil {
		c := xclassify(clientErr)
		if strings.HasPrefix(clientErr.Error(), "timestamping failed: ") {
			return "failed:" + c
		}
		return c
	}
	s := err.Error()
	if strings.Contains(s, "failed signature self-check") || strings.Contains(s, "failed to validate timestamp") {
		return "selfcheck:" + classify(err)
	}
	return xclassify(err)
}

// ---------------------------------------------------------------------------------------------
// TSX pool: signinit.Init over a YAML configuration, then the appmanifest signer module

var (
	xDirOnce sync.Once
	xDir     string
)

func xScratch() string {
	xDirOnce.Do(func() {
		d, err := os.MkdirTemp("", "vh-tsx-")
		if err != nil {
			panic(err)
		}
		xDir = d
		hx.OnExit(func() { os.RemoveAll(d) })
		// key and certificate chain of the long-lived leaf, as files for the file token
		der, err := x509.MarshalPKCS8PrivateKey(pki.leaf.key)
		if err != nil {
			panic(err)
		}
		must := func(err error) {
			if err != nil {
				panic(err)
			}
		}
		must(os.WriteFile(filepath.Join(d, "leaf.key"), pem.EncodeToMemory(&pem.Block{Type: "PRIVATE KEY", Bytes: der}), 0o600))
		chain := append(pem.EncodeToMemory(&pem.Block{Type: "CERTIFICATE", Bytes: pki.leaf.cert.Raw}),
			pem.EncodeToMemory(&pem.Block{Type: "CERTIFICATE", Bytes: pki.root.cert.Raw})...)
		must(os.WriteFile(filepath.Join(d, "leaf.crt"), chain, 0o644))
	})
	return xDir
}

type xpass struct{}

func (xpass) GetPasswd(string) (string, error) { return "", errors.New("no password") }

func yamlList(xs []string) string {
	q := make([]string, len(xs))
	for i, x := range xs {
		q[i] = strconv.Quote(x)
	}
	return "[" + strings.Join(q, ", ") + "]"
}

type xpool struct {
	name string
	n    int
}

// pool <kts> <kname> <nots> <section> <style> <d> <m> <k> {<name> <n>}*k <behaviour>*(d+m+sum n)
func opPool(f []string) string {
	kts, kname, nots, section, style := f[0] == "1", xName(f[1]), f[2], f[3] == "1", f[4]
	d, m, k := int(hx.Atoi(f[5])), int(hx.Atoi(f[6])), int(hx.Atoi(f[7]))
	pos := 8
	var pools []xpool
	total := d + m
	for i := 0; i < k; i++ {
		p := xpool{xName(f[pos]), int(hx.Atoi(f[pos+1]))}
		pools = append(pools, p)
		total += p.n
		pos += 2
	}
	script := f[pos : pos+total]
	ctx, cancel := context.WithCancel(context.Background())
	defer cancel()
	tsa.reset(script, cancel)
	logs.take()
	all := tsa.urls(total)
	dir := xScratch()
	var y strings.Builder
	fmt.Fprintf(&y, "tokens:\n  file:\n    type: file\nkeys:\n  k:\n    token: file\n    keyfile: %s\n    x509certificate: %s\n",
		strconv.Quote(filepath.Join(dir, "leaf.key")), strconv.Quote(filepath.Join(dir, "leaf.crt")))
	if kts {
		y.WriteString("    timestamp: true\n")
	}
	if kname != "" {
		fmt.Fprintf(&y, "    timestamper: %s\n", strconv.Quote(kname))
	}
	if section {
		y.WriteString("timestamp:\n  timeout: 1\n")
		if d > 0 {
			fmt.Fprintf(&y, "  urls: %s\n", yamlList(all[:d]))
		}
		if m > 0 {
			fmt.Fprintf(&y, "  msurls: %s\n", yamlList(all[d:d+m]))
		}
		if len(pools) > 0 {
			y.WriteString("  namedurls:\n")
			at := d + m
			for _, p := range pools {
				fmt.Fprintf(&y, "    %s: %s\n", strconv.Quote(p.name), yamlList(all[at:at+p.n]))
				at += p.n
			}
		}
	}
	cpath := filepath.Join(dir, "relic.yml")
	if err := os.WriteFile(cpath, []byte(y.String()), 0o600); err != nil {
		panic(err)
	}
	cfg, err := config.ReadFile(cpath)
	if err != nil {
		return "err config:" + strings.ReplaceAll(err.Error(), " ", "_")
	}
	shared.CurrentConfig = cfg
	tsxhooks.ResetTimestamper()
	tok, err := filetoken.Open(cfg, "file", xpass{})
	if err != nil {
		return "err token"
	}
	mod := signers.ByName("appmanifest")
	q := url.Values{}
	if nots != "-" {
		q.Set("no-timestamp", nots)
	}
	if style == "legacy" {
		q.Set("rfc3161-timestamp", "false")
	}
	flags, err := mod.FlagsFromQuery(q)
	if err != nil {
		return "err flags"
	}
	cert, opts, err := verifhooks.SigninitInit(ctx, mod, tok, "k", crypto.SHA256, flags)
	if err != nil {
		return fmt.Sprintf("err %s contacted=%s errs=-", xclassify(err), csvInts(tsa.contactedCopy()))
	}
	var rec *xrec
	if cert.Timestamper != nil {
		rec = &xrec{inner: cert.Timestamper}
		cert.Timestamper = rec
	}
	res, err, pan := guarded(func() (string, error) {
		blob, err := mod.Sign(strings.NewReader(manifestXML), cert, *opts)
		if err != nil {
			return "", err
		}
		v, err := verifyManifest(blob, x509.ExtKeyUsageCodeSigning)
		if err != nil {
			return "", fmt.Errorf("re-verification failed: %w", err)
		}
		return tsa.issuedBy(v.cs) + " " + v.chain, nil
	})
	var cerr error
	if rec != nil {
		cerr = rec.lastErr()
	}
	contacted := csvInts(tsa.contactedCopy())
	errs := csv(attemptErrs(logs.take(), cerr))
	switch {
	case pan != "":
		return fmt.Sprintf("panic %s contacted=%s", pan, contacted)
	case err != nil:
		return fmt.Sprintf("err %s contacted=%s errs=%s", xSignErrClass(err, cerr), contacted, errs)
	}
	return fmt.Sprintf("ok %s contacted=%s errs=%s", res, contacted, errs)
}

// ---------------------------------------------------------------------------------------------
// TSX ckeys: two requests through timestampcache + tsclient; which memcache keys are used, whether the second is
// served from the cache, and whether what it is given fits it

type xreq struct {
	legacy bool
	name   string
	hash   crypto.Hash
	ed     []byte
}

func parseXreq(f []string) xreq {
	return xreq{f[0] == "1", xName(f[1]), crypto.Hash(hx.Atoi(f[2])), hx.MustUnHex(f[3])}
}

func fits(tok *pkcs7.ContentInfoSignedData, r xreq) bool {
	if tok == nil {
		return false
	}
	if r.legacy {
		_, err := pkcs9.VerifyMicrosoftToken(tok, r.ed)
		return err == nil
	}
	_, err := pkcs9.Verify(tok, r.ed, nil)
	return err == nil
}

func lastOr(xs []string, from int) string {
	if len(xs) > from {
		return xs[len(xs)-1]
	}
	return "-"
}

// ckeys <legA> <nameA> <hashA> <edA> <legB> <nameB> <hashB> <edB> <mode>     mode: up | down
func opCkeys(f []string) string {
	a, b, mode := parseXreq(f[0:4]), parseXreq(f[4:8]), f[8]
	mc := startXMemcache()
	defer mc.ln.Close()
	addr := mc.addr()
	if mode == "down" {
		mc.ln.Close()
	}
	// URL layout: 0,1 default pool; 2,3 legacy pool; then one URL per distinct non-empty name
	names := []string{}
	for _, n := range []string{a.name, b.name} {
		if n != "" && (len(names) == 0 || names[0] != n) {
			names = append(names, n)
		}
	}
	total := 4 + len(names)
	script := make([]string, total)
	for i := range script {
		script[i] = "valid"
	}
	one := func(r xreq) string {
		tsa.reset(script, nil)
		logs.take()
		all := tsa.urls(total)
		conf := &config.TimestampConfig{Timeout: 1, URLs: all[0:2], MsURLs: all[2:4], NamedURLs: map[string][]string{}, Memcache: []string{addr}}
		for i, n := range names {
			conf.NamedURLs[n] = all[4+i : 5+i]
		}
		client, err := tsclient.New(conf)
		if err != nil {
			return "err new"
		}
		g0, s0, _, _ := mc.snapshot()
		var tok *pkcs7.ContentInfoSignedData
		_, err, pan := guarded(func() (string, error) {
			var e error
			tok, e = client.Timestamp(context.Background(), &pkcs9.Request{EncryptedDigest: r.ed, Hash: r.hash, Legacy: r.legacy, Name: r.name})
			return "", e
		})
		if pan != "" {
			return "panic " + pan
		}
		if err != nil {
			return "err " + xclassify(err)
		}
		g1, s1, e1, _ := mc.snapshot()
		src := "cache"
		if c := tsa.contactedCopy(); len(c) > 0 {
			src = "url" + strconv.Itoa(c[0])
		}
		exp := "-"
		if len(s1) > len(s0) {
			exp = e1[len(e1)-1]
		}
		return fmt.Sprintf("ok %s get=%s set=%s exp=%s fits=%d", src, lastOr(g1, len(g0)), lastOr(s1, len(s0)), exp, b2i(fits(tok, r)))
	}
	ra := one(a)
	rb := one(b)
	_, _, _, n := mc.snapshot()
	return fmt.Sprintf("A[%s] B[%s] stored=%d", ra, rb, n)
}

// ---------------------------------------------------------------------------------------------
// TSX rate: the limiter around a scripted inner time-stamper

type stubTS struct {
	mu     sync.Mutex
	script []string
	cur    int // index of the call in progress (the script is per call, not per time the stub is reached)
	calls  []time.Time
	tok    *pkcs7.ContentInfoSignedData
}

var errStub = errors.New("stub: authority failed")

func (s *stubTS) Timestamp(ctx context.Context, req *pkcs9.Request) (*pkcs7.ContentInfoSignedData, error) {
	s.mu.Lock()
	i := s.cur
	s.calls = append(s.calls, time.Now())
	s.mu.Unlock()
	b := "ok"
	if i < len(s.script) {
		b = s.script[i]
	}
	switch b {
	case "ok":
		return s.tok, nil
	case "ctx":
		return nil, ctx.Err()
	}
	return nil, errStub
}

func stubClass(tok *pkcs7.ContentInfoSignedData, err error, want *pkcs7.ContentInfoSignedData) string {
	switch {
	case err == nil && tok == want:
		return "tok"
	case err == nil:
		return "other-token"
	case err == errStub:
		return "fail"
	case errors.Is(err, context.Canceled):
		return "canceled"
	case errors.Is(err, context.DeadlineExceeded):
		return "deadline"
	}
	return xclassify(err)
}

// rate <permille-rate> <burst> <n> <ctxspec> <inner result>*n
//
//	rate in events per second x 1000 (0: no limiter, negative allowed); ctxspec: none | pre:<j> | dl:<j>:<ms> | cancel:<j>:<ms>
//
// n sequential calls; call j (0-based) runs under the special context.  Output: per call the class of what came back and
// whether the inner time-stamper was reached; after " || " the times (ms since the start) at which each call returned.
func opRate(f []string) string {
	rate := float64(hx.Atoi(f[0])) / 1000
	burst, n := int(hx.Atoi(f[1])), int(hx.Atoi(f[2]))
	spec := strings.Split(f[3], ":")
	script := f[4 : 4+n]
	stub := &stubTS{script: script, tok: &pkcs7.ContentInfoSignedData{}}
	lim := ratelimit.New(stub, rate, burst)
	special, arg := -1, 0
	if spec[0] != "none" {
		special = int(hx.Atoi(spec[1]))
		if len(spec) > 2 {
			arg = int(hx.Atoi(spec[2]))
		}
	}
	start := time.Now()
	var parts, times []string
	for i := 0; i < n; i++ {
		ctx := context.Background()
		var cancel context.CancelFunc = func() {}
		if i == special {
			switch spec[0] {
			case "pre":
				ctx, cancel = context.WithCancel(ctx)
				cancel()
			case "dl":
				ctx, cancel = context.WithTimeout(ctx, time.Duration(arg)*time.Millisecond)
			case "cancel":
				ctx, cancel = context.WithCancel(ctx)
				c := cancel
				time.AfterFunc(time.Duration(arg)*time.Millisecond, c)
			}
		}
		before := len(stub.calls)
		stub.cur = i
		tok, err := lim.Timestamp(ctx, &pkcs9.Request{EncryptedDigest: []byte{byte(i)}, Hash: crypto.SHA256})
		cancel()
		reached := len(stub.calls) - before
		parts = append(parts, fmt.Sprintf("%s/%d", stubClass(tok, err, stub.tok), reached))
		times = append(times, strconv.FormatInt(time.Since(start).Milliseconds(), 10))
	}
	return "ok " + strings.Join(parts, " ") + " || " + strings.Join(times, " ")
}

// wire <mode>: the order of the wrappers built by tsclient.New (cache outside the limiter outside the client):
//
//	hit:   rate 2/s burst 1, the same request twice: the second is a cache hit and must not wait for the limiter
//	miss:  rate 2/s burst 1, two different requests: the second waits about 500 ms
//	nolim: rate 0: two different requests, no wait
func opWire(f []string) string {
	mode := f[0]
	mc := startXMemcache()
	defer mc.ln.Close()
	tsa.reset([]string{"valid"}, nil)
	logs.take()
	conf := &config.TimestampConfig{Timeout: 1, URLs: tsa.urls(1), Memcache: []string{mc.addr()}, RateLimit: 2, RateBurst: 1}
	if mode == "nolim" {
		conf.RateLimit = 0
	}
	client, err := tsclient.New(conf)
	if err != nil {
		return "err new"
	}
	ed2 := []byte("wire signature value one")
	if mode != "hit" {
		ed2 = []byte("wire signature value two")
	}
	start := time.Now()
	var out, times []string
	for _, ed := range [][]byte{[]byte("wire signature value one"), ed2} {
		before := len(tsa.contactedCopy())
		tok, err := client.Timestamp(context.Background(), &pkcs9.Request{EncryptedDigest: ed, Hash: crypto.SHA256})
		src := "cache"
		if len(tsa.contactedCopy()) > before {
			src = "url0"
		}
		if err != nil {
			out = append(out, "err:"+xclassify(err))
		} else {
			out = append(out, fmt.Sprintf("%s:fits=%d", src, b2i(fits(tok, xreq{false, "", crypto.SHA256, ed}))))
		}
		times = append(times, strconv.FormatInt(time.Since(start).Milliseconds(), 10))
	}
	return "ok " + strings.Join(out, " ") + " || " + strings.Join(times, " ")
}

// ---------------------------------------------------------------------------------------------
// TSX site: every attach site through relic's signer modules, then relic's verifiers

var xFix = map[string]string{
	"pe-coff": "WindowsFormsApplication1.exe", "msi": "dummy.msi", "cab": "dummy.cab", "ps": "hello.ps1", "jar": "hello.jar",
	"apk": "dummy.apk", "appx": "App1_1.0.3.0_x64.appx", "vsix": "VSIXProject1.vsix", "xap": "dummy.xap", "cat": "hyperv.cat",
	"dmg": "dummy.dmg", "xar": "dummy.pkg", "appmanifest": "WindowsFormsApplication1.exe.manifest", "cosign": "gen:oci",
}

const xOCI = `{"schemaVersion":2,"mediaType":"application/vnd.oci.image.manifest.v1+json","config":{"mediaType":"application/vnd.oci.image.config.v1+json","digest":"sha256:e3b0c44298fc1c149afbf4c8996fb92427ae41e4649b934ca495991b7852b855","size":0},"layers":[]}`

func fixtureDir() string {
	if r := os.Getenv("VERIF_REPO"); r != "" {
		return filepath.Join(r, "functest", "packages")
	}
	return "/repo/functest/packages"
}

var (
	xLeafMu sync.Mutex
	xLeafs  = map[string]*certloader.Certificate{}
)

// a leaf certificate issued by the harness root, valid from day nb to day na relative to the PKI's base time
func windowedLeaf(kind string, nb, na int) *certloader.Certificate {
	k := fmt.Sprintf("%s %d %d", kind, nb, na)
	xLeafMu.Lock()
	defer xLeafMu.Unlock()
	if c := xLeafs[k]; c != nil {
		cp := *c
		return &cp
	}
	var key crypto.Signer
	var err error
	if kind == "rsa" {
		key, err = rsa.GenerateKey(rand.Reader, 2048)
	} else {
		key, err = ecdsa.GenerateKey(elliptic.P256(), rand.Reader)
	}
	if err != nil {
		panic(err)
	}
	pki.mu.Lock()
	pki.serials++
	serial := pki.serials
	pki.mu.Unlock()
	tmpl := &x509.Certificate{
		SerialNumber: big.NewInt(1000 + serial),
		Subject:      pkix.Name{CommonName: "verif site leaf " + k, Organization: []string{"verif harness"}},
		NotBefore:    pki.base.Add(time.Duration(nb) * day), NotAfter: pki.base.Add(time.Duration(na) * day),
		KeyUsage:    x509.KeyUsageDigitalSignature,
		ExtKeyUsage: []x509.ExtKeyUsage{x509.ExtKeyUsageCodeSigning}, BasicConstraintsValid: true,
	}
	der, err := x509.CreateCertificate(rand.Reader, tmpl, pki.root.cert, key.Public(), pki.root.key)
	if err != nil {
		panic(err)
	}
	cert, err := x509.ParseCertificate(der)
	if err != nil {
		panic(err)
	}
	c := &certloader.Certificate{Leaf: cert, Certificates: []*x509.Certificate{cert, pki.root.cert}, PrivateKey: key, KeyName: "verif-site"}
	xLeafs[k] = c
	cp := *c
	return &cp
}

func attrOID(si *pkcs7.SignerInfo) string {
	if si == nil {
		return "-"
	}
	var out []string
	for _, a := range si.UnauthenticatedAttributes {
		switch {
		case a.Type.Equal(pkcs9.OidAttributeTimeStampToken):
			out = append(out, "tst")
		case a.Type.Equal(pkcs9.OidSpcTimeStampToken):
			out = append(out, "spc")
		case a.Type.Equal(pkcs9.OidAttributeCounterSign):
			out = append(out, "cs")
		}
	}
	if len(out) == 0 {
		return "none"
	}
	sort.Strings(out)
	return strings.Join(out, "+")
}

// the imprint and genTime of an RFC 3161 token, or the content of a legacy one
func tokenBinds(tok *pkcs7.ContentInfoSignedData, ed []byte, h crypto.Hash) string {
	if tok == nil {
		return "none"
	}
	content, err := tok.Content.ContentInfo.Bytes()
	if err != nil {
		return "unreadable"
	}
	if tok.Content.ContentInfo.ContentType.Equal(pkcs9.OidTSTInfo) {
		var info pkcs9.TSTInfo
		if _, err := asn1.Unmarshal(content, &info); err != nil {
			return "unreadable"
		}
		w := h.New()
		w.Write(ed)
		if bytes.Equal(info.MessageImprint.HashedMessage, w.Sum(nil)) {
			return "this"
		}
		return "other"
	}
	if bytes.Equal(content, ed) {
		return "this"
	}
	return "other"
}

type cosignDoc struct {
	Layers []struct {
		Annotations map[string]string `json:"annotations"`
	} `json:"layers"`
}

// site <type> <key> <hash> <att> <mode> <flags>
//
//	att: day (relative to now) the authority attests; the leaf is valid from day -30 to day -10
//	mode: direct | miss | foreign | off | fail
func opSite(f []string) string {
	typ, kind, hn, att, mode, flagStr := f[0], f[1], f[2], int(hx.Atoi(f[3])), f[4], f[5]
	mod := signers.ByName(typ)
	if mod == nil {
		return "bad-op"
	}
	h := map[string]crypto.Hash{"sha1": crypto.SHA1, "sha256": crypto.SHA256, "sha384": crypto.SHA384, "sha512": crypto.SHA512}[hn]
	if h == 0 {
		return "bad-op"
	}
	flags := map[string]string{}
	if flagStr != "-" {
		for _, kv := range strings.Split(flagStr, ";") {
			p := strings.SplitN(kv, "=", 2)
			flags[p[0]] = p[1]
		}
	}
	legacy := flags["rfc3161-timestamp"] == "false"
	// input
	var data []byte
	var err error
	fx := xFix[typ]
	if fx == "gen:oci" {
		data = []byte(xOCI)
		fx = "manifest.json"
	} else {
		data, err = os.ReadFile(filepath.Join(fixtureDir(), fx))
		if err != nil {
			return "bad-op fixture"
		}
	}
	dir, err := os.MkdirTemp("", "vh-tsx-site-")
	if err != nil {
		panic(err)
	}
	defer os.RemoveAll(dir)
	path := filepath.Join(dir, fx)
	if err := os.WriteFile(path, data, 0o644); err != nil {
		panic(err)
	}
	out := filepath.Join(dir, "out-"+fx)
	// authority
	script := []string{"http500", "valid"}
	if mode == "fail" {
		script = []string{"http500", "wnonce"}
		if legacy {
			script = []string{"http500", "garbage"}
		}
	}
	tsa.reset(script, nil)
	tsa.mu.Lock()
	tsa.at = pki.base.Add(time.Duration(att) * day)
	tsa.mu.Unlock()
	logs.take()
	all := tsa.urls(2)
	conf := &config.TimestampConfig{Timeout: 1, URLs: all, MsURLs: all}
	var mc *xMemcache
	if mode == "miss" || mode == "foreign" {
		mc = startXMemcache()
		defer mc.ln.Close()
		conf.Memcache = []string{mc.addr()}
		if mode == "foreign" {
			// a genuine token of the trusted authority, issued for another signature value
			other := []byte("the signature value of some other signature")
			var ftok *pkcs7.ContentInfoSignedData
			if legacy {
				ftok = issueLegacy(pki.tsa, other, tsa.at, false, false)
			} else {
				w := h.New()
				w.Write(other)
				ftok = issueRFC(pki.tsa, mustAlg(h), w.Sum(nil), big.NewInt(99), tsa.at, 8888, tokOpts{})
			}
			mc.foreign, _ = ftok.Marshal()
		}
	}
	client, err := tsclient.New(conf)
	if err != nil {
		return "err new"
	}
	rec := &xrec{inner: named{client: client}}
	cert := windowedLeaf(kind, -30, -10)
	if mode != "off" {
		cert.Timestamper = rec
	}
	res, err, pan := guarded(func() (string, error) {
		if err := sg.Sign(typ, path, out, cert, h, flags); err != nil {
			return "", err
		}
		return "", nil
	})
	contacted := csvInts(tsa.contactedCopy())
	nreq := len(rec.reqs)
	if pan != "" {
		return fmt.Sprintf("panic %s contacted=%s", pan, contacted)
	}
	if err != nil {
		return fmt.Sprintf("err %s reqs=%d contacted=%s", xSignErrClass(err, rec.lastErr()), nreq, contacted)
	}
	_ = res
	// what the site asked for
	reqDesc := "reqs=0"
	var req pkcs9.Request
	var given *pkcs7.ContentInfoSignedData
	if nreq > 0 {
		req, given = rec.reqs[nreq-1], rec.toks[nreq-1]
		reqDesc = fmt.Sprintf("reqs=%d legacy=%d reqhash=%s", nreq, b2i(req.Legacy), strings.ToLower(strings.ReplaceAll(req.Hash.String(), "-", "")))
	}
	cacheDesc := ""
	if mc != nil && nreq > 0 {
		g, s, _, n := mc.snapshot()
		want := ""
		if nreq > 0 {
			want = xCacheKey(req)
		}
		keyOK := len(g) > 0 && g[len(g)-1] == want
		stored := false
		if given != nil {
			blob, _ := given.Marshal()
			mc.mu.Lock()
			stored = bytes.Equal(mc.data[want], blob)
			mc.mu.Unlock()
		}
		cacheDesc = fmt.Sprintf(" cache[gets=%d sets=%d n=%d key=%d stored=%d]", len(g), len(s), n, b2i(keyOK), b2i(stored))
	}
	// verification by relic
	v := xVerifySite(typ, out, cert, req, given)
	return fmt.Sprintf("ok signed %s given=%s%s contacted=%s verify[%s]", reqDesc, tokenBinds(given, req.EncryptedDigest, req.Hash), cacheDesc, contacted, v)
}

// the memcache key as the harness computes it independently (what the property says must determine the request)
func xCacheKey(req pkcs9.Request) string {
	prefix := "pkcs9"
	if req.Legacy {
		prefix = "msft"
	}
	d := sha256.Sum256(req.EncryptedDigest)
	return fmt.Sprintf("%s%s-%d-%s", prefix, req.Name, uint(req.Hash), hex.EncodeToString(d[:]))
}

func xVerifySite(typ, out string, cert *certloader.Certificate, req pkcs9.Request, given *pkcs7.ContentInfoSignedData) string {
	var tsigs []*pkcs9.TimestampedSignature
	switch typ {
	case "cosign":
		blob, err := os.ReadFile(out)
		if err != nil {
			return "err read"
		}
		var doc cosignDoc
		if err := json.Unmarshal(blob, &doc); err != nil || len(doc.Layers) != 1 {
			return "err json"
		}
		an := doc.Layers[0].Annotations
		rawSig, err := base64.StdEncoding.DecodeString(an["dev.cosignproject.cosign/signature"])
		if err != nil {
			return "err sig-annotation"
		}
		ts := &pkcs9.TimestampedSignature{Signature: pkcs7.Signature{Certificate: cert.Leaf, Intermediates: cert.Certificates}}
		if tsb, ok := an["dev.sigstore.cosign/rfc3161timestamp"]; ok {
			raw, err := base64.StdEncoding.DecodeString(tsb)
			if err != nil {
				return "err ts-annotation"
			}
			tok, err := pkcs7.Unmarshal(raw)
			if err != nil {
				return "err ts-parse"
			}
			cs, err := pkcs9.Verify(tok, rawSig, nil)
			if err != nil {
				return "err " + classify(err)
			}
			ts.CounterSignature = cs
		}
		if nreqED := req.EncryptedDigest; nreqED != nil && !bytes.Equal(nreqED, rawSig) {
			return "err stamped-value-is-not-the-signature-annotation"
		}
		tsigs = append(tsigs, ts)
	case "appmanifest":
		blob, err := os.ReadFile(out)
		if err != nil {
			return "err read"
		}
		ms, err := appmanifest.Verify(blob)
		if err != nil {
			return "err " + classify(err)
		}
		tsigs = append(tsigs, ms.Signature)
	default:
		sigs, err := sg.Verify(typ, out, cert, false)
		if err != nil {
			return "err " + classify(err)
		}
		for _, s := range sigs {
			if s.X509Signature != nil {
				tsigs = append(tsigs, s.X509Signature)
			}
		}
	}
	if len(tsigs) == 0 {
		return "err no-x509-signature"
	}
	var parts []string
	for _, ts := range tsigs {
		who := tsa.issuedBy(ts.CounterSignature)
		same := "-"
		if ts.CounterSignature != nil && given != nil {
			same = strconv.Itoa(b2i(string(ts.CounterSignature.SignerInfo.EncryptedDigest) == sigValue(given)))
		}
		ed := "-"
		if ts.SignerInfo != nil && req.EncryptedDigest != nil {
			ed = strconv.Itoa(b2i(bytes.Equal(ts.SignerInfo.EncryptedDigest, req.EncryptedDigest)))
		}
		chain := chainClass(ts.VerifyChain(pki.roots, nil, x509.ExtKeyUsageCodeSigning))
		at := "-"
		if ts.CounterSignature != nil {
			at = strconv.Itoa(int(ts.CounterSignature.SigningTime.Sub(pki.base).Round(time.Hour) / day))
		}
		parts = append(parts, fmt.Sprintf("%s oid=%s same=%s ed=%s at=%s %s", who, attrOID(ts.SignerInfo), same, ed, at, chain))
	}
	sort.Strings(parts)
	return strings.Join(parts, " & ")
}

// ---------------------------------------------------------------------------------------------
// TSX conc: N concurrent signing operations through ONE client (limiter, cache and pools shared)

// conc <n> <permille-rate> <burst> <cache>
//
// The time-stamper is the process-wide one of internal/signinit: every goroutine calls the real signinit.Init (key k0:
// `timestamp: true`, keys ka / kb: `timestamper: a / b`) right after the cached instance was dropped, so the lazy
// creation itself happens under concurrency.
func opConc(f []string) string {
	n := int(hx.Atoi(f[0]))
	rate := float64(hx.Atoi(f[1])) / 1000
	burst := int(hx.Atoi(f[2]))
	withCache := f[3] == "1"
	// pools: request i uses pool p(i%3): "", "a", "b"; every URL valid
	script := []string{"valid", "valid", "valid"}
	tsa.reset(script, nil)
	logs.take()
	all := tsa.urls(3)
	dir := xScratch()
	var y strings.Builder
	y.WriteString("tokens:\n  file:\n    type: file\nkeys:\n")
	for _, k := range [][2]string{{"k0", "timestamp: true"}, {"ka", "timestamper: a"}, {"kb", "timestamper: b"}} {
		fmt.Fprintf(&y, "  %s:\n    token: file\n    keyfile: %s\n    x509certificate: %s\n    %s\n", k[0],
			strconv.Quote(filepath.Join(dir, "leaf.key")), strconv.Quote(filepath.Join(dir, "leaf.crt")), k[1])
	}
	fmt.Fprintf(&y, "timestamp:\n  timeout: 5\n  urls: %s\n  namedurls:\n    a: %s\n    b: %s\n", yamlList(all[0:1]), yamlList(all[1:2]), yamlList(all[2:3]))
	if rate != 0 {
		fmt.Fprintf(&y, "  ratelimit: %g\n  rateburst: %d\n", rate, burst)
	}
	var mc *xMemcache
	if withCache {
		mc = startXMemcache()
		defer mc.ln.Close()
		fmt.Fprintf(&y, "  memcache: %s\n", yamlList([]string{mc.addr()}))
	}
	cpath := filepath.Join(dir, "relic-conc.yml")
	if err := os.WriteFile(cpath, []byte(y.String()), 0o600); err != nil {
		panic(err)
	}
	cfg, err := config.ReadFile(cpath)
	if err != nil {
		return "err config:" + strings.ReplaceAll(err.Error(), " ", "_")
	}
	shared.CurrentConfig = cfg
	tsxhooks.ResetTimestamper()
	tok, err := filetoken.Open(cfg, "file", xpass{})
	if err != nil {
		return "err token"
	}
	mod := signers.ByName("cat")
	flags, _ := mod.FlagsFromQuery(url.Values{})
	keyNames := []string{"k0", "ka", "kb"}
	res := make([]string, n)
	var wg sync.WaitGroup
	start := time.Now()
	for i := 0; i < n; i++ {
		wg.Add(1)
		go func(i int) {
			defer wg.Done()
			psd := baseP7(pki.leaf, []byte(fmt.Sprintf("concurrent payload %d", i)))
			ed := append([]byte{}, psd.Content.SignerInfos[0].EncryptedDigest...)
			var rec *xrec
			r, err, pan := guarded(func() (string, error) {
				cert, _, err := verifhooks.SigninitInit(context.Background(), mod, tok, keyNames[i%3], crypto.SHA256, flags)
				if err != nil {
					return "", err
				}
				if cert.Timestamper == nil {
					return "no-timestamper", nil
				}
				rec = &xrec{inner: cert.Timestamper}
				outp, err := pkcs9.TimestampAndMarshal(context.Background(), psd, rec, i%2 == 1)
				if err != nil {
					return "", err
				}
				v, err := verifyP7(outp.Raw, x509.ExtKeyUsageCodeSigning)
				if err != nil {
					return "", err
				}
				if v.cs == nil {
					return "none", nil
				}
				// the token must be for THIS signature value, and come from THIS request's pool
				if len(rec.reqs) != 1 || !bytes.Equal(rec.reqs[0].EncryptedDigest, ed) || rec.reqs[0].Name != "" {
					return "request-mutated", nil
				}
				who := tsa.issuedBy(v.cs)
				if who != "url"+strconv.Itoa(i%3) {
					return "wrong-pool:" + who, nil
				}
				return "own", nil
			})
			switch {
			case pan != "":
				res[i] = "panic:" + pan
			case err != nil:
				res[i] = "err:" + xclassify(err)
			default:
				res[i] = r
			}
		}(i)
	}
	wg.Wait()
	el := time.Since(start).Milliseconds()
	contacted := tsa.contactedCopy()
	per := map[int]int{}
	for _, c := range contacted {
		per[c]++
	}
	stored := 0
	if mc != nil {
		_, _, _, stored = mc.snapshot()
	}
	return fmt.Sprintf("ok %s per=%d,%d,%d stored=%d || %d", strings.Join(res, " "), per[0], per[1], per[2], stored, el)
}

// ---------------------------------------------------------------------------------------------
// TSX cachert: bytes of a token on its way authority -> client -> memcache -> client -> attribute (C16)

func opCacheRT(f []string) string {
	style := f[0]
	legacy := style == "legacy"
	mc := startXMemcache()
	defer mc.ln.Close()
	tsa.reset([]string{"valid"}, nil)
	logs.take()
	all := tsa.urls(1)
	conf := &config.TimestampConfig{Timeout: 1, URLs: all, MsURLs: all, Memcache: []string{mc.addr()}}
	client, err := tsclient.New(conf)
	if err != nil {
		return "err new"
	}
	ed := []byte("cache round trip signature value " + style)
	req := &pkcs9.Request{EncryptedDigest: ed, Hash: crypto.SHA256, Legacy: legacy}
	t1, err := client.Timestamp(context.Background(), req)
	if err != nil {
		return "err first:" + xclassify(err)
	}
	b1, _ := t1.Marshal()
	mc.mu.Lock()
	var stored []byte
	for _, v := range mc.data {
		stored = v
	}
	mc.mu.Unlock()
	t2, err := client.Timestamp(context.Background(), req)
	if err != nil {
		return "err second:" + xclassify(err)
	}
	b2, _ := t2.Marshal()
	src := "cache"
	if len(tsa.contactedCopy()) != 1 {
		src = "authority"
	}
	// attach both to copies of one signature and compare the attribute bytes
	attr := func(tok *pkcs7.ContentInfoSignedData) []byte {
		psd := baseP7(pki.leaf, []byte("payload"))
		si := &psd.Content.SignerInfos[0]
		if err := pkcs9.AddStampToSignedData(si, *tok); err != nil {
			return nil
		}
		if len(si.UnauthenticatedAttributes) != 1 {
			return nil
		}
		return si.UnauthenticatedAttributes[0].Values.Bytes
	}
	a1, a2 := attr(t1), attr(t2)
	return fmt.Sprintf("ok second=%s stored=%d again=%d attr=%d inattr=%d fits=%d", src, b2i(bytes.Equal(stored, b1)), b2i(bytes.Equal(b1, b2)),
		b2i(a1 != nil && bytes.Equal(a1, a2)), b2i(a2 != nil && bytes.Contains(a2, b1)), b2i(fits(t2, xreq{legacy, "", crypto.SHA256, ed})))
}

// HandleX answers one TSX op (fields after the first token).
func HandleX(f []string) string {
	if len(f) < 1 {
		return "bad-op"
	}
	xInit()
	switch f[0] {
	case "pool":
		return opPool(f[1:])
	case "ckeys":
		return opCkeys(f[1:])
	case "rate":
		return opRate(f[1:])
	case "wire":
		return opWire(f[1:])
	case "site":
		return opSite(f[1:])
	case "conc":
		return opConc(f[1:])
	case "cachert":
		return opCacheRT(f[1:])
	}
	return "bad-op"
}

// GenX writes the TSX ops of one property.
func GenX(w *bufio.Writer, seed uint64, tier string, prop string) {
	rng := hx.NewRng(seed ^ 0x75a)
	thorough := tier == "thorough"
	seen := map[string]bool{}
	emit := func(format string, a ...interface{}) {
		s := fmt.Sprintf(format, a...)
		if !seen[s] {
			seen[s] = true
			fmt.Fprintln(w, s)
		}
	}
	hn := func(s string) string {
		if s == "" {
			return "-"
		}
		return hex.EncodeToString([]byte(s))
	}
	// ---- C16: a token's bytes on the way authority -> client -> memcache -> client -> attribute
	if prop == "C16" || prop == "C10" {
		emit("TSX cachert rfc")
		emit("TSX cachert legacy")
	}
	if prop == "C16" {
		return
	}
	// ---- C14 (and a few under C10): concurrent requests through one client
	concs := [][3]int{{0, 0, 0}, {50000, 3, 0}, {20000, 1, 1}, {50000, 2, 1}, {0, 0, 1}}
	ns := []int{2, 6, 12}
	if prop == "C14" {
		ns = []int{2, 3, 6, 12, 24}
	}
	for _, n := range ns {
		for _, c := range concs {
			if c[0] == 20000 && n > 12 {
				continue
			}
			emit("TSX conc %d %d %d %d", n, c[0], c[1], c[2])
		}
	}
	if prop == "C14" {
		return
	}
	// ---- pools
	long := strings.Repeat("n", 200)
	names := []string{"a", "b", "A", "a-5", "x y", long}
	rfcA := []string{"valid", "wnonce", "wimprint", "rej2", "badsig", "http500", "reset", "garbage", "trailing", "mods", "rogue", "walg"}
	legA := []string{"valid", "wimprint", "badsig", "transplant", "rogue", "notime", "http500", "reset", "garbage", "b64junk"}
	pool := func(kts int, kname, nots string, section int, style string, d, m int, pools []xpool, script []string) {
		var sb strings.Builder
		for _, p := range pools {
			fmt.Fprintf(&sb, " %s %d", hn(p.name), p.n)
		}
		emit("TSX pool %d %s %s %d %s %d %d %d%s %s", kts, hn(kname), nots, section, style, d, m, len(pools), sb.String(), strings.Join(script, " "))
	}
	valid := func(n int) []string {
		s := make([]string, n)
		for i := range s {
			s[i] = "valid"
		}
		return s
	}
	std := []xpool{{"a", 2}, {"b", 1}}
	// (i) the decision table: key options x request flag x section x style, over one configuration
	for _, kts := range []int{0, 1} {
		for _, kname := range []string{"", "a", "b", "zz", "A"} {
			for _, nots := range []string{"-", "true", "false", "1", "yes", "TRUE", "t", "0", "True", "T", "tRUE"} {
				for _, section := range []int{0, 1} {
					for _, style := range []string{"rfc", "legacy"} {
						if nots != "-" && nots != "true" && (style == "legacy" || section == 0) && rng.Intn(3) != 0 {
							continue
						}
						pool(kts, kname, nots, section, style, 2, 1, std, valid(6))
						sc := valid(6)
						for _, i := range []int{0, 2, 3, 5} { // the first URL of every list fails: failover stays inside the chosen list
							sc[i] = "http500"
						}
						pool(kts, kname, nots, section, style, 2, 1, std, sc)
					}
				}
			}
		}
	}
	// (ii) boundaries of the lists
	for _, style := range []string{"rfc", "legacy"} {
		pool(1, "", "-", 1, style, 0, 0, nil, nil)
		pool(1, "", "-", 1, style, 0, 1, nil, valid(1))
		pool(1, "", "-", 1, style, 1, 0, nil, valid(1))
		pool(1, "a", "-", 1, style, 0, 0, []xpool{{"a", 0}}, nil)
		pool(1, "a", "-", 1, style, 1, 1, []xpool{{"a", 0}}, valid(2))
		pool(1, "a", "-", 1, style, 0, 0, []xpool{{"a", 1}}, valid(1))
		pool(0, "a", "-", 1, style, 0, 0, []xpool{{"b", 1}}, valid(1))
		pool(1, "b", "-", 1, style, 1, 1, []xpool{{"a", 1}, {"b", 3}}, append(valid(3), "http500", "http500", "valid"))
		pool(0, "x y", "-", 1, style, 1, 1, []xpool{{"x y", 1}}, valid(3))
		pool(0, long, "-", 1, style, 1, 1, []xpool{{long, 2}}, valid(4))
		pool(0, "a-5", "-", 1, style, 1, 1, []xpool{{"a", 1}, {"a-5", 1}}, valid(4))
	}
	// (iii) seeded configurations
	nr := 120
	if thorough {
		nr = 3000
	}
	for i := 0; i < nr; i++ {
		style, alpha := "rfc", rfcA
		if rng.Intn(3) == 0 {
			style, alpha = "legacy", legA
		}
		d, m, k := rng.Intn(4), rng.Intn(3), rng.Intn(4)
		perm := []int{0, 1, 2, 3, 4, 5}
		for j := len(perm) - 1; j > 0; j-- {
			o := rng.Intn(j + 1)
			perm[j], perm[o] = perm[o], perm[j]
		}
		var pools []xpool
		total := d + m
		for j := 0; j < k; j++ {
			p := xpool{names[perm[j]], rng.Intn(4)}
			pools = append(pools, p)
			total += p.n
		}
		kname := ""
		switch rng.Intn(4) {
		case 0:
		case 1:
			kname = "zz"
		default:
			if k > 0 {
				kname = pools[rng.Intn(k)].name
			} else {
				kname = names[rng.Intn(len(names))]
			}
		}
		script := make([]string, total)
		for j := range script {
			script[j] = alpha[rng.Intn(len(alpha))]
			if script[j] == "valid" && rng.Intn(2) == 0 {
				script[j] = "http500"
			}
		}
		nots := []string{"-", "-", "-", "-", "false", "true"}[rng.Intn(6)]
		pool(rng.Intn(2), kname, nots, b2i(rng.Intn(8) != 0), style, d, m, pools, script)
	}
	// ---- cache keys: which components of a request the key determines
	ck := func(a, b xreq, mode string) {
		emit("TSX ckeys %d %s %d %s %d %s %d %s %s", b2i(a.legacy), hn(a.name), uint(a.hash), hex.EncodeToString(a.ed),
			b2i(b.legacy), hn(b.name), uint(b.hash), hex.EncodeToString(b.ed), mode)
	}
	ed0, ed1 := []byte{0xaa, 0xbb, 0xcc, 0xdd}, []byte{0xaa, 0xbb, 0xcc, 0xde}
	base := xreq{false, "", crypto.SHA256, ed0}
	hashes := []crypto.Hash{crypto.SHA1, crypto.SHA256, crypto.SHA384, crypto.SHA512}
	for _, leg := range []bool{false, true} {
		for _, nm := range []string{"", "a", "a-5"} {
			a := base
			a.legacy, a.name = leg, nm
			ck(a, a, "up")
			ck(a, a, "down")
			b := a
			b.ed = ed1
			ck(a, b, "up")
			b = a
			b.legacy = !leg
			ck(a, b, "up")
			for _, n2 := range []string{"", "a", "b", "A", "a-5", "a-"} {
				if n2 != nm {
					b = a
					b.name = n2
					ck(a, b, "up")
				}
			}
			for _, h := range hashes {
				if h != a.hash {
					b = a
					b.hash = h
					ck(a, b, "up")
				}
			}
		}
	}
	// names and hash numbers whose concatenation looks alike
	ck(xreq{false, "a-5", crypto.SHA224, ed0}, xreq{false, "a", crypto.SHA256, ed0}, "up")
	ck(xreq{false, "a-5-4", crypto.SHA256, ed0}, xreq{false, "a-5", crypto.SHA224, ed0}, "up")
	ck(xreq{false, "a-", crypto.SHA256, ed0}, xreq{false, "a", crypto.SHA256, ed0}, "up")
	// memcache key legality: length boundary (250) and forbidden bytes
	for _, leg := range []bool{false, true} {
		for _, l := range []int{176, 177, 178, 179, 180, 181} {
			nm := strings.Repeat("k", l)
			a := xreq{leg, nm, crypto.SHA256, ed0}
			ck(a, a, "up")
		}
		for _, nm := range []string{"x y", "tab\there", "del\x7f", "nl\nx", "ok!~"} {
			a := xreq{leg, nm, crypto.SHA256, ed0}
			ck(a, a, "up")
		}
	}
	nk := 60
	if thorough {
		nk = 2000
	}
	for i := 0; i < nk; i++ {
		a := xreq{rng.Bool(), []string{"", "a", "b", "a-5"}[rng.Intn(4)], hashes[rng.Intn(4)], rng.Bytes(2 + rng.Intn(6))}
		b := a
		if rng.Bool() {
			b.legacy = rng.Bool()
		}
		if rng.Bool() {
			b.name = []string{"", "a", "b", "a-5"}[rng.Intn(4)]
		}
		if rng.Bool() {
			b.hash = hashes[rng.Intn(4)]
		}
		if rng.Bool() {
			b.ed = append([]byte{}, a.ed...)
			b.ed[rng.Intn(len(b.ed))] ^= byte(1 << uint(rng.Intn(8)))
		}
		ck(a, b, "up")
	}
	// ---- rate limiter
	inner := func(n int) string {
		s := make([]string, n)
		for i := range s {
			s[i] = "ok"
			if rng.Intn(4) == 0 {
				s[i] = "fail"
			}
		}
		return strings.Join(s, " ")
	}
	for _, rate := range []int{5000, 10000, 20000, 50000, 100000} {
		period := 1000000 / rate
		for _, burst := range []int{-1, 0, 1, 2, 3, 5} {
			b := burst
			if b < 1 {
				b = 1
			}
			n := b + 1 + rng.Intn(3)
			emit("TSX rate %d %d %d none %s", rate, burst, n, inner(n))
			j := b + rng.Intn(n-b) // a call that has to wait one period
			emit("TSX rate %d %d %d pre:%d %s", rate, burst, n, j, inner(n))
			emit("TSX rate %d %d %d pre:0 %s", rate, burst, n, inner(n))
			if period >= 100 { // refusals decided by comparing a wait with a deadline: wide margins (90 ms) against stalls
				emit("TSX rate %d %d %d dl:%d:10 %s", rate, burst, n, j, inner(n))
				emit("TSX rate %d %d %d cancel:%d:10 %s", rate, burst, n, j, inner(n))
				emit("TSX rate %d %d %d cancel:%d:%d %s", rate, burst, n, j, period/10, inner(n))
			}
			emit("TSX rate %d %d %d dl:%d:%d %s", rate, burst, n, j, period*4, inner(n))
			emit("TSX rate %d %d %d dl:0:%d %s", rate, burst, n, period/2+1, inner(n))
			emit("TSX rate %d %d %d cancel:%d:%d %s", rate, burst, n, j, period*4+200, inner(n))
		}
	}
	for _, burst := range []int{0, 1, 3} {
		emit("TSX rate 0 %d 4 none %s", burst, inner(4))
		emit("TSX rate 0 %d 4 pre:1 %s", burst, inner(4))
		// a rate that is not positive: the bucket never refills; only the first `burst` calls are let through
		b := burst
		if b < 1 {
			b = 1
		}
		emit("TSX rate -1000 %d %d none %s", burst, b, inner(b))
		emit("TSX rate -1000 %d %d dl:%d:40 %s", burst, b+1, b, inner(b+1))
		emit("TSX rate -1000 %d %d cancel:%d:30 %s", burst, b+1, b, inner(b+1))
		emit("TSX rate -1000 %d %d pre:%d %s", burst, b+1, b, inner(b+1))
	}
	for _, mode := range []string{"hit", "miss", "nolim"} {
		emit("TSX wire %s", mode)
	}
	// ---- attach sites
	types := []string{"pe-coff", "msi", "cab", "ps", "xap", "cat", "appx", "jar", "dmg", "xar", "appmanifest", "vsix", "cosign", "apk"}
	site := func(t, key, h string, att int, mode, flags string) {
		emit("TSX site %s %s %s %d %s %s", t, key, h, att, mode, flags)
	}
	for i, t := range types {
		for _, key := range []string{"rsa", "p256"} {
			site(t, key, "sha256", -20, "direct", "-")
			site(t, key, "sha256", 0, "direct", "-")
			site(t, key, "sha256", -20, "foreign", "-")
			site(t, key, "sha256", -20, "miss", "-")
		}
		key := []string{"rsa", "p256"}[i%2]
		site(t, key, "sha256", -20, "off", "-")
		site(t, key, "sha256", -20, "fail", "-")
		for _, att := range []int{-31, -30, -10, -9} {
			site(t, key, "sha256", att, "direct", "-")
		}
		// digests other than SHA-256, where the format has them
		alt := map[string][]string{"appx": {"sha384", "sha512"}, "dmg": {"sha1", "sha384"}, "xar": {"sha1", "sha512"}, "cosign": {"sha384", "sha512"}, "apk": {}}[t]
		if alt == nil {
			alt = []string{"sha1", "sha384", "sha512"}
		}
		for j, h := range alt {
			site(t, key, h, -20, []string{"direct", "foreign", "miss"}[(i+j)%3], "-")
		}
	}
	for _, key := range []string{"rsa", "p256"} {
		for _, mode := range []string{"direct", "foreign", "miss", "fail", "off"} {
			site("appmanifest", key, "sha256", -20, mode, "rfc3161-timestamp=false")
		}
		site("appmanifest", key, "sha256", 0, "direct", "rfc3161-timestamp=false")
		site("vsix", key, "sha256", -20, "direct", "detach-certs=true")
		site("vsix", key, "sha256", -20, "foreign", "detach-certs=true")
	}
}

/-
  C01 (APPX / MSIX, part level): what relic's signer writes is accepted by relic's verifier.

  * `appx_sign_then_verify` — for every package (member list, certificate, hash family) that `DigestAppxTar` + `Sign` accept, the
    model verifier accepts the written package, **composed with the ZIP layer through one explicit hypothesis**: the view of
    the written file (`outView`) lists the payload members followed by the written parts with their contents, and `verifyMeta`
    recomputes the two streams the signer hashed for AXPC and AXCD (Relic.Props.C05.appx_digest_eq_spec gives both streams in
    terms of the written bytes; the round trip `zipslicer.Read ∘ WriteDirectory` itself is not a theorem: C17's
    `write_read_roundtrip_readable`).  The parameters are tied by `RoundTrip` (PKCS#7, XML and base64 return what was put in).
    The conditions on the input are exactly the ones under which the unchanged / repaired code has the property:
    no payload member is left out of the block map (F41: true for every package once `Fx.f41` holds), the manifest's document
    element is `Package` with an `Identity` child, nothing shadows the Publisher attribute (not needed once `Fx.pub` holds), the
    formatted subject contains no carriage return.
  * the three exceptions as witnesses on concrete packages: `appx_sign_then_verify_f41_orig` (listed F41),
    `appx_publisher_shadow_breaks_sign_then_verify_orig` (listed F-appx-publisher-nsdecl),
    `appx_publisher_cr_breaks_sign_then_verify` (listed F-appx-publisher-cr).
  * `appx_publisher_is_signers` — the Publisher attribute written is the formatted subject of the signing certificate, and an
    accepted package's Publisher (as the verifier reads it) is the formatted subject of the certificate that signed it.
  * `[Content_Types].xml`: `contenttypes_add_idempotent`, `contenttypes_find_after_add`, `contenttypes_roundtrip` (Marshal ∘ Parse ∘
    Marshal = Marshal on the lists, and the parsed maps answer every lookup as the original), `xml_attr_escape_roundtrip`.
-/
import Relic.Proofs.AppxPkgSign
import Relic.Proofs.AppxPkgCT
namespace Relic.Props.C01
open Relic Relic.Appx Relic.AppxPkg

/-- the parameters return what was put in, on the values this signing produced: PKCS#7 (`SignSip`, then the PKCS#7 part of
    `readSignature`; the catalog), `encoding/xml` + base64 on the block map, etree + `encoding/xml` on the manifest (`reread`: the
    XML parser's end-of-line handling), one name formatter on both sides, digests of `hs` bytes -/
structure RoundTrip (H : Nat → Bytes → Bytes) (S : SignEnv) (E : Env) (cert : CertId) (alg hs : Nat) (r : SignedPkg) (d' : MDoc)
    (blob : Bytes) : Prop where
  sig : E.openSig (S.p7 blob) = .ok ⟨cert, alg, hs, blob⟩
  hlen : ∀ s, (H alg s).length = hs
  bm : E.parseBM r.axbm = some ⟨some alg, r.bm.map (hashBm H alg)⟩
  cat : ∀ c, r.axci = some c → E.openCat c = .ok cert
  man : E.parseManifest (S.marshalManifest d') = some (reread d')
  fmt : E.fmtName = S.fmtName

theorem finishParts_ok {S : SignEnv} {payload : List InMember} {t : Parsed} {mname mbytes : Bytes} {md : Option MDoc}
    {bd : Option BDoc} {r : SignedPkg} (h : finishParts S payload t mname mbytes md bd = .ok r) :
    t.unverified = false ∧ r.bm = t.bm ++ [bmEntry mname mbytes] ∧ r.manifest = md ∧ r.bundle = bd ∧
    r.hasPE = payload.any (fun m => isPE m.name) ∧ r.axct = ctSerialize r.ct ∧ r.axbm = S.marshalBM r.bm ∧
    r.axci = (if r.hasPE then some (S.catalog ((payload.filter fun m => isPE m.name).map (·.content))) else none) ∧
    r.members = payload.map (fun m => (⟨m.name, m.stored, m.content⟩ : OutMember)) ++
      [⟨mname, true, mbytes⟩, ⟨sBlockMap, false, r.axbm⟩, ⟨sCTypes, false, r.axct⟩] ++
      (if r.hasPE then [⟨sCatalog, false, S.catalog ((payload.filter fun m => isPE m.name).map (·.content))⟩] else []) := by
  unfold finishParts at h
  simp only at h
  split at h
  · cases h
  next hu =>
    simp only [Res.ok.injEq] at h
    subst h
    simp only [Bool.not_eq_true] at hu
    exact ⟨hu, rfl, rfl, rfl, rfl, rfl, rfl, rfl, rfl⟩

theorem all2_map {α β γ : Type} {R : β → γ → Prop} (f : α → β) (g : α → γ) : ∀ (l : List α), (∀ x ∈ l, R (f x) (g x)) →
    All2 R (l.map f) (l.map g)
  | [], _ => .nil
  | x :: l, h => .cons (h x (by simp)) (all2_map f g l fun y hy => h y (by simp [hy]))

theorem all2_append {β γ : Type} {R : β → γ → Prop} : ∀ {a : List β} {b : List γ} {c : List β} {d : List γ}, All2 R a b → All2 R c d →
    All2 R (a ++ c) (b ++ d)
  | _, _, _, _, .nil, h => h
  | _, _, _, _, .cons h0 ht, h => .cons h0 (all2_append ht h)

/-- a member against the `File` element the signer made for it -/
theorem match_own (H : Nat → Bytes → Bytes) (alg : Nat) (name content : Bytes) (st : Bool) :
    Match H alg (toEntry ⟨name, st, content⟩) (hashBm H alg (bmEntry name content)) := by
  refine ⟨rfl, rfl, ?_, content, rfl, ?_⟩
  · simp only [hashBm, bmEntry, blocksOf, List.length_map, toEntry]
    exact chunks_length _ _ (Nat.le_refl _)
  · simp only [hashBm, bmEntry, blocksOf, List.map_map, toEntry]
    exact blockSteps_chunks H alg _ _ (Nat.le_refl _)

theorem map_hashBm_of_core {H : Nat → Bytes → Bytes} {alg : Nat} : ∀ {l l' : List Appx.BmFile}, l.map core = l'.map core →
    l.map (hashBm H alg) = l'.map (hashBm H alg)
  | [], [], _ => rfl
  | [], _ :: _, h => by simp at h
  | _ :: _, [], h => by simp at h
  | a :: l, b :: l', h => by
    simp only [List.map_cons, List.cons.injEq] at h ⊢
    exact ⟨hashBm_of_core h.1, map_hashBm_of_core h.2⟩

/-- **appx_sign_then_verify.** -/
theorem appx_sign_then_verify (H : Nat → Bytes → Bytes) (fx : Fx) (S : SignEnv) (E : Env) (cert : CertId) (alg hs n : Nat)
    (ms : List InMember) (r : SignedPkg) (d : MDoc) (axpc axcd : Bytes)
    (rt : RoundTrip H S E cert alg hs r (setPublisher (S.fmtName cert.subject) d) (digestBlob H alg axpc axcd r))
    (hsign : signParts fx S ms cert.subject = .ok r)
    -- the package manifest the signer found (a package, not a bundle), as it was written
    (hman : r.manifest = some (setPublisher (S.fmtName cert.subject) d))
    (hroot : d.rootNamed = true) (hid : d.ids ≠ []) (hshadow : fx.pub = true ∨ NoShadow d)
    (hcr : (13 : UInt8) ∉ S.fmtName cert.subject)
    -- F41: no payload member is left out of the block map
    (hf41 : ∀ m ∈ payloadOf ms, skipBMfx fx.f41 (ms.any fun m => m.name == sBundle) m.name = false) :
    run H (verifySteps fx E n (outView r (sigMemberOf S (digestBlob H alg axpc axcd r)) axpc axcd)) = .ok () := by
  unfold signParts at hsign
  simp only at hsign
  split at hsign
  · cases hsign
  split at hsign
  next t ht =>
    have hcore := tailParse_core S _ _ t ht
    simp only at hcore
    cases hm0 : t.manifest with
    | none =>
      cases hb0 : t.bundle with
      | none => simp [hm0, hb0] at hsign
      | some b =>
        simp only [hm0, hb0] at hsign
        have := (finishParts_ok hsign).2.2.1
        rw [hman] at this; cases this
    | some d0 =>
    simp only [hm0] at hsign
    have hfin := hsign
    obtain ⟨_, e_bm, e_man, _, e_pe, e_ct, e_axbm, e_ci, e_mem⟩ := finishParts_ok hfin
    have e0 : setPublisher (S.fmtName cert.subject) d0 = setPublisher (S.fmtName cert.subject) d := by
      rw [hman] at e_man; exact (Option.some.inj e_man).symm
    let mbytes := S.marshalManifest (setPublisher (S.fmtName cert.subject) d0)
    have hmb : E.parseManifest mbytes = some (reread (setPublisher (S.fmtName cert.subject) d)) := by
      simp only [mbytes]; rw [e0, rt.man]
    -- the view
    let c := r.hasPE
    let cat := S.catalog (((payloadOf ms).filter fun m => isPE m.name).map (·.content))
    let blob := digestBlob H alg axpc axcd r
    let sg := tPKCX ++ S.p7 blob
    let PE : List Entry := (payloadOf ms).map fun m => toEntry ⟨m.name, m.stored, m.content⟩
    have hview : outView r (sigMemberOf S blob) axpc axcd = ⟨PE ++ newsOf c mbytes r.axbm r.axct cat sg, .ok (axpc, axcd)⟩ := by
      simp only [outView, sigMemberOf, e_mem, newsOf, PE, List.map_append, List.map_map, List.append_assoc, c, cat, sg, mbytes,
        Function.comp_def]
    show run H (verifySteps fx E n (outView r (sigMemberOf S blob) axpc axcd)) = .ok ()
    rw [hview]
    have hPE : ∀ nm : Bytes, special nm = true → ∀ e ∈ PE, (e.name == nm) = false := by
      intro nm hnm e he
      simp only [PE, List.mem_map] at he
      obtain ⟨m, hm, rfl⟩ := he
      have hs := payload_not_special ms m hm
      simp only [toEntry]
      cases hx : (m.name == nm) with
      | false => rfl
      | true =>
        have := eq_of_beq hx
        rw [this, hnm] at hs; cases hs
    obtain ⟨f1, f2, f3, f4, f5, f6⟩ := find_news (.ok (axpc, axcd)) c mbytes r.axbm r.axct cat sg
    have g1 := (find_append_left (.ok (axpc, axcd)) (.ok (axpc, axcd)) PE (newsOf c mbytes r.axbm r.axct cat sg) sSignature (hPE _ (by decide))).trans f1
    have g2 := (find_append_left (.ok (axpc, axcd)) (.ok (axpc, axcd)) PE (newsOf c mbytes r.axbm r.axct cat sg) sBlockMap (hPE _ (by decide))).trans f2
    have g3 := (find_append_left (.ok (axpc, axcd)) (.ok (axpc, axcd)) PE (newsOf c mbytes r.axbm r.axct cat sg) sCTypes (hPE _ (by decide))).trans f3
    have g4 := (find_append_left (.ok (axpc, axcd)) (.ok (axpc, axcd)) PE (newsOf c mbytes r.axbm r.axct cat sg) sCatalog (hPE _ (by decide))).trans f4
    have g5 := (find_append_left (.ok (axpc, axcd)) (.ok (axpc, axcd)) PE (newsOf c mbytes r.axbm r.axct cat sg) Appx.sManifest (hPE _ (by decide))).trans f5
    have g6 := (find_append_left (.ok (axpc, axcd)) (.ok (axpc, axcd)) PE (newsOf c mbytes r.axbm r.axct cat sg) sBundle (hPE _ (by decide))).trans f6
    have hnb : View.isBundle ⟨PE ++ newsOf c mbytes r.axbm r.axct cat sg, .ok (axpc, axcd)⟩ = false := by
      unfold View.isBundle; rw [g6]; rfl
    -- the signature part
    let vals : SMap := digestVals (H alg axpc) (H alg axcd) (H alg r.axct) (H alg r.axbm) (r.axci.map (H alg))
    have hsigv : readSig E ⟨PE ++ newsOf c mbytes r.axbm r.axct cat sg, .ok (axpc, axcd)⟩ = .ok ⟨cert, alg, vals⟩ := by
      unfold readSig
      rw [g1]
      simp only [toEntry, sg]
      have p1 : (tPKCX ++ S.p7 blob).take 4 = tPKCX := by
        rw [List.take_append_of_le_length (by decide)]; rfl
      have p2 : (tPKCX ++ S.p7 blob).drop 4 = S.p7 blob := by
        rw [List.drop_append_of_le_length (by decide)]; rfl
      rw [p1, p2, rt.sig]
      simp only [ne_eq, not_true_eq_false, if_false]
      have hpd : parseDigests hs blob = some vals := by
        simp only [blob, digestBlob]
        rw [parseDigests_enc]
        · simp only [vals, digestVals]; cases r.axci <;> rfl
        · intro x hx
          have l4 : tAXPC.length = 4 ∧ tAXCD.length = 4 ∧ tAXCT.length = 4 ∧ tAXBM.length = 4 ∧ tAXCI.length = 4 := by decide
          cases hci : r.axci with
          | none =>
            simp only [hci, List.append_nil, List.mem_cons, List.not_mem_nil, or_false] at hx
            rcases hx with rfl | rfl | rfl | rfl <;> simp [rt.hlen, l4]
          | some e =>
            simp only [hci, List.mem_append, List.mem_cons, List.not_mem_nil, or_false] at hx
            rcases hx with (rfl | rfl | rfl | rfl) | rfl <;> simp [rt.hlen, l4]
      rw [hpd]
    obtain ⟨t1, t2, t3, t4, t5⟩ := tagValue_digests (H alg axpc) (H alg axcd) (H alg r.axct) (H alg r.axbm) (r.axci.map (H alg))
    refine (verify_package_ok hnb).2 ⟨⟨cert, alg, vals⟩, hsigv, ?_, ?_, ?_, ?_, ?_, ?_, ?_⟩
    · -- AXBM
      exact fileSteps_ok.2 (Or.inr ⟨_, r.axbm, _, g2, rfl, t4, rfl⟩)
    · -- AXCI
      rw [fileSteps_ok, g4, t5, e_ci]
      cases hc : r.hasPE with
      | false => left; simp [c, hc]
      | true => right; exact ⟨toEntry ⟨sCatalog, false, cat⟩, cat, H alg cat, by simp [c, hc], rfl, by simp [cat], rfl⟩
    · -- AXCT
      exact fileSteps_ok.2 (Or.inr ⟨_, r.axct, _, g3, rfl, t3, rfl⟩)
    · -- block map
      rw [bmSteps_ok]
      refine ⟨_, r.axbm, _, alg, g2, rfl, rt.bm, rfl, ?_⟩
      rw [hnb, bmLoop_ok]
      refine ⟨r.bm.map (hashBm H alg), [], by simp, ?_⟩
      -- the covered members: the payload and the manifest
      have hcov : (PE ++ newsOf c mbytes r.axbm r.axct cat sg).filter (fun f => covered false f.name) =
          PE ++ [toEntry ⟨Appx.sManifest, true, mbytes⟩] := by
        rw [List.filter_append]
        have h1 : PE.filter (fun f => covered false f.name) = PE := by
          rw [List.filter_eq_self]
          intro e he
          have := special_false (n := e.name) (by
            simp only [PE, List.mem_map] at he
            obtain ⟨m, hm, rfl⟩ := he
            exact payload_not_special ms m hm)
          simp [covered, noHash, this.2.1, this.2.2.1, this.2.2.2.1, this.2.2.2.2.1]
        have k1 : covered false Appx.sManifest = true := by decide
        have k2 : covered false sBlockMap = false := by decide
        have k3 : covered false sCTypes = false := by decide
        have k4 : covered false sCatalog = false := by decide
        have k5 : covered false sSignature = false := by decide
        rw [h1]
        cases c <;> simp [newsOf, toEntry, List.filter, k1, k2, k3, k4, k5]
      rw [hcov, e_bm, List.map_append]
      apply all2_append
      · have e1 : t.bm.map (hashBm H alg) = (payloadOf ms).map fun m => hashBm H alg (bmEntry m.name m.content) := by
          rw [map_hashBm_of_core hcore]
          simp only [payloadBM, List.map_map]
          have : (payloadOf ms).filter (fun m => !skipBMfx fx.f41 (ms.any fun m => m.name == sBundle) m.name) = payloadOf ms := by
            rw [List.filter_eq_self]; intro m hm; simp [hf41 m hm]
          rw [this]; rfl
        rw [e1]
        exact all2_map _ _ _ fun m _ => match_own H alg m.name m.content m.stored
      · exact .cons (match_own H alg _ _ _) .nil
    · -- catalog
      rw [catSteps_ok, g4]
      cases hc : r.hasPE with
      | false => left; simp [c, hc]
      | true => right; exact ⟨toEntry ⟨sCatalog, false, cat⟩, cat, cert, by simp [c, hc], rfl, rt.cat cat (by rw [e_ci, hc]; rfl), rfl⟩
    · -- AXPC, AXCD
      exact metaSteps_ok.2 ⟨axpc, axcd, rfl, by rw [t1]; rfl, by rw [t2]; rfl⟩
    · -- Publisher
      rw [manifestSteps_ok]
      refine ⟨_, mbytes, _, g5, rfl, hmb, ?_⟩
      rw [rt.fmt]
      exact publisher_readable fx _ d hroot hid hshadow hcr
  all_goals cases hsign

/-- the simple sufficient conditions for the F41 hypothesis: the repair is in and the input has no bundle manifest, or no
    payload member is called `*.appx` -/
theorem f41_hypothesis (fx : Fx) (ms : List InMember)
    (h : (fx.f41 = true ∧ (ms.any fun m => m.name == sBundle) = false) ∨ ∀ m ∈ payloadOf ms, isAppxName m.name = false) :
    ∀ m ∈ payloadOf ms, skipBMfx fx.f41 (ms.any fun m => m.name == sBundle) m.name = false := by
  intro m hm
  have hs := special_false (payload_not_special ms m hm)
  have hn : noHash m.name = false := by simp [noHash, hs.2.1, hs.2.2.1, hs.2.2.2.1, hs.2.2.2.2.1]
  unfold skipBMfx
  rcases h with ⟨h1, h2⟩ | h
  · simp [hn, h1, h2]
  · simp [hn, h m hm]

/-! ### a concrete world: non-vacuity of the theorem and the three exceptions as witnesses -/

/-- toy hash of 4 bytes -/
def wH : Nat → Bytes → Bytes := fun _ s => (s ++ [0, 0, 0, 0]).take 4

theorem wH_len (a : Nat) (s : Bytes) : (wH a s).length = 4 := by simp [wH]

/-- 'a.appx', 'a.png' -/
def nAppx : Bytes := [97, 46, 97, 112, 112, 120]
def nPng : Bytes := [97, 46, 112, 110, 103]

/-- manifests the toy parser knows: [77] ↦ one Identity with a Publisher; [78] ↦ the same with `xmlns:Publisher` after it -/
def wDoc : MDoc := ⟨true, [[⟨[], [78], [110]⟩, ⟨[], sPublisher, [79]⟩]]⟩
def wDocNs : MDoc := ⟨true, [[⟨[], sPublisher, [79]⟩, ⟨Xml.sXmlns, sPublisher, [117]⟩]]⟩

def wS : SignEnv :=
  { peOk := fun _ => true,
    parseManifest := fun b => if b = [77] then some wDoc else if b = [78] then some wDocNs else none,
    parseBundle := fun _ => none, oldBM := fun _ => none, parseCT := fun _ => none,
    marshalManifest := fun _ => [109], marshalBundle := fun _ => [117], marshalBM := fun _ => [98], catalog := fun _ => [99],
    p7 := id, fmtName := id }

/-- the verifier's parameters for one signed package: what was written parses to what was meant -/
def wE (subj : Bytes) (r : SignedPkg) (blob : Bytes) : Env :=
  { openSig := fun b => if b = blob then .ok ⟨⟨[7], subj⟩, 256, 4, blob⟩ else .err "badsig",
    parseBM := fun b => if b = r.axbm then some ⟨some 256, r.bm.map (hashBm wH 256)⟩ else none,
    openCat := fun _ => .ok ⟨[7], subj⟩,
    parseManifest := fun b => if b = [109] then r.manifest.map reread else none,
    parseBundle := fun _ => none, fmtName := id, unzip := fun _ => none, mapOrder := id }

/-- sign with the model signer, verify with the model verifier -/
def wVerdict (fx : Fx) (subj : Bytes) (ms : List InMember) : Res Unit :=
  match signParts fx wS ms subj with
  | .ok r =>
    let blob := digestBlob wH 256 [1] [2] r
    run wH (verifySteps fx (wE subj r blob) 1 (outView r (sigMemberOf wS blob) [1] [2]))
  | .err e => .err e
  | .panic s => .panic s
  | .diverge => .diverge

set_option maxRecDepth 20000 in
/-- non-vacuity: a package with a payload member, signed and accepted, by the unrepaired and by the repaired code -/
example : wVerdict Fx.orig [83] [⟨nPng, true, [1, 2, 3]⟩, ⟨Appx.sManifest, true, [77]⟩] = .ok () ∧
    wVerdict Fx.all [83] [⟨nPng, true, [1, 2, 3]⟩, ⟨Appx.sManifest, false, [77]⟩, ⟨sSignature, false, [9]⟩] = .ok () := by decide

set_option maxRecDepth 20000 in
/-- the hypotheses of `appx_sign_then_verify` are satisfiable: the toy world is a `RoundTrip` for the package above, whose
    manifest has a `Package` root, an `Identity` child and nothing shadowing the Publisher -/
example : ∃ r, signParts Fx.all wS [⟨nPng, true, [1, 2, 3]⟩, ⟨Appx.sManifest, true, [77]⟩] [83] = .ok r ∧
    RoundTrip wH wS (wE [83] r (digestBlob wH 256 [1] [2] r)) ⟨[7], [83]⟩ 256 4 r (setPublisher [83] wDoc) (digestBlob wH 256 [1] [2] r) ∧
    wDoc.rootNamed = true ∧ wDoc.ids ≠ [] ∧ NoShadow wDoc ∧ (13 : UInt8) ∉ wS.fmtName [83] := by
  cases h : signParts Fx.all wS [⟨nPng, true, [1, 2, 3]⟩, ⟨Appx.sManifest, true, [77]⟩] [83] with
  | ok r =>
    have key : (match signParts Fx.all wS [⟨nPng, true, [1, 2, 3]⟩, ⟨Appx.sManifest, true, [77]⟩] [83] with
        | .ok r => decide (r.manifest = some (setPublisher [83] wDoc)) | _ => false) = true := by decide
    rw [h] at key
    have hm : r.manifest = some (setPublisher [83] wDoc) := of_decide_eq_true key
    refine ⟨r, rfl, ⟨by simp [wE, wS], wH_len 256, by simp [wE], fun c _ => rfl, by simp [wE, wS, hm], rfl⟩, rfl, by decide, ?_, by decide⟩
    exact noShadow_of_single _ (by decide) (by decide)
  | err e => have key : (match signParts Fx.all wS [⟨nPng, true, [1, 2, 3]⟩, ⟨Appx.sManifest, true, [77]⟩] [83] with
        | .ok _ => true | _ => false) = true := by decide
             rw [h] at key; cases key
  | panic e => have key : (match signParts Fx.all wS [⟨nPng, true, [1, 2, 3]⟩, ⟨Appx.sManifest, true, [77]⟩] [83] with
        | .ok _ => true | _ => false) = true := by decide
               rw [h] at key; cases key
  | diverge => have key : (match signParts Fx.all wS [⟨nPng, true, [1, 2, 3]⟩, ⟨Appx.sManifest, true, [77]⟩] [83] with
        | .ok _ => true | _ => false) = true := by decide
               rw [h] at key; cases key

set_option maxRecDepth 20000 in
/-- **appx_sign_then_verify_f41_orig (listed F41).** A plain package with a member named `a.appx`: the unrepaired signer leaves
    it out of the block map, the verifier expects it ("blockmap: file mismatch"); with the repair the package verifies. -/
theorem appx_sign_then_verify_f41_orig :
    wVerdict Fx.orig [83] [⟨nAppx, true, [1, 2, 3]⟩, ⟨Appx.sManifest, true, [77]⟩] = .err "bm-mismatch" ∧
    wVerdict ⟨true, false, false⟩ [83] [⟨nAppx, true, [1, 2, 3]⟩, ⟨Appx.sManifest, true, [77]⟩] = .ok () := by decide

set_option maxRecDepth 20000 in
/-- **appx_publisher_shadow_breaks_sign_then_verify_orig (listed F-appx-publisher-nsdecl).** An `Identity` element that declares a
    namespace prefix called `Publisher` after its `Publisher` attribute: `SetPublisher` rewrites the attribute, `checkManifest`
    reads the declaration; with the repair the package verifies. -/
theorem appx_publisher_shadow_breaks_sign_then_verify_orig :
    wVerdict Fx.orig [83] [⟨nPng, true, [1, 2, 3]⟩, ⟨Appx.sManifest, true, [78]⟩] = .err "publisher" ∧
    wVerdict ⟨false, false, true⟩ [83] [⟨nPng, true, [1, 2, 3]⟩, ⟨Appx.sManifest, true, [78]⟩] = .ok () := by decide

set_option maxRecDepth 20000 in
/-- **appx_publisher_cr_breaks_sign_then_verify (listed F-appx-publisher-cr).** A formatted subject containing a carriage return
    is written literally and read back as a line feed: rejected by both versions of the verifier. -/
theorem appx_publisher_cr_breaks_sign_then_verify :
    wVerdict Fx.orig [83, 13, 84] [⟨nPng, true, [1, 2, 3]⟩, ⟨Appx.sManifest, true, [77]⟩] = .err "publisher" ∧
    wVerdict Fx.all [83, 13, 84] [⟨nPng, true, [1, 2, 3]⟩, ⟨Appx.sManifest, true, [77]⟩] = .err "publisher" := by decide

/-! ### the Publisher -/

/-- **appx_publisher_is_signers.** (1) What the signer writes: when the manifest's document element is `Package` and has an
    `Identity` child, the unprefixed `Publisher` attribute of the first `Identity` element of the written manifest is the
    formatted subject of the signing certificate (`FormatPkixName(RawSubject, NameStyleMsOsco)`; Relic.Ident.formatPkixName).
    (2) What the verifier accepts: the Publisher it reads from the manifest is the formatted subject of the certificate that
    made the signature; with the repair that Publisher is the attribute (1) speaks of. -/
theorem appx_publisher_is_signers (H : Nat → Bytes → Bytes) (fx : Fx) (S : SignEnv) (E : Env) (n : Nat) :
    (∀ (ms : List InMember) (subject : Bytes) (r : SignedPkg) (d' : MDoc), signParts fx S ms subject = .ok r → r.manifest = some d' →
      ∃ d, d' = setPublisher (S.fmtName subject) d ∧
        (d.rootNamed = true → d.ids ≠ [] → visiblePublisher d' = some (S.fmtName subject))) ∧
    (∀ (v : View), v.isBundle = false → run H (verifySteps fx E n v) = .ok () →
      ∃ s m blob d, readSig E v = .ok s ∧ v.find Appx.sManifest = some m ∧ m.content = .ok blob ∧ E.parseManifest blob = some d ∧
        readPublisher fx.pub d = E.fmtName s.cert.subject ∧
        (fx.pub = true → E.fmtName s.cert.subject ≠ [] → d.rootNamed = true ∧ visiblePublisher d = some (E.fmtName s.cert.subject))) := by
  constructor
  · intro ms subject r d' hsign hman
    unfold signParts at hsign
    simp only at hsign
    split at hsign
    · cases hsign
    split at hsign
    next t ht =>
      cases hm0 : t.manifest with
      | none =>
        cases hb0 : t.bundle with
        | none => simp [hm0, hb0] at hsign
        | some b =>
          simp only [hm0, hb0] at hsign
          have := (finishParts_ok hsign).2.2.1
          rw [hman] at this; cases this
      | some d0 =>
        simp only [hm0] at hsign
        have := (finishParts_ok hsign).2.2.1
        rw [hman] at this
        refine ⟨d0, Option.some.inj this, fun hr hi => ?_⟩
        rw [Option.some.inj this]
        exact visiblePublisher_set _ d0 hr hi
    all_goals cases hsign
  · intro v hb ha
    obtain ⟨s, hs, _, _, _, _, _, _, h7⟩ := (verify_package_ok hb).1 ha
    obtain ⟨m, blob, d, h1, h2, h3, h4⟩ := manifestSteps_ok.1 h7
    refine ⟨s, m, blob, d, hs, h1, h2, h3, h4, fun hp hne => ?_⟩
    rw [hp] at h4
    -- repaired reading: the attribute SetPublisher writes
    unfold readPublisher at h4
    simp only [if_true] at h4
    by_cases hr : d.rootNamed = true
    · simp only [hr, if_true] at h4
      cases hv : visiblePublisher d with
      | none => rw [hv] at h4; exact absurd h4.symm hne
      | some p => rw [hv] at h4; exact ⟨hr, by simpa using h4⟩
    · simp only [hr] at h4
      exact absurd h4.symm hne

/-! ### `[Content_Types].xml` -/

/-- **contenttypes_add_idempotent.** -/
theorem contenttypes_add_idempotent (c : CT) (name : Bytes) : ctAdd (ctAdd c name) name = ctAdd c name := ctAdd_idem c name

/-- **contenttypes_find_after_add.** `Find` is the override if there is a non-empty one, else the default of the extension
    (`ctFind_eq`); every name given to `Add` then has a content type. -/
theorem contenttypes_find_after_add (c : CT) (name : Bytes) (hb : name = sBundle → Vsix.mget c.byOvr (47 :: sBundle) = []) :
    Vsix.ctFind (ctAdd c name) name ≠ [] := ctFind_after_add c name hb

/-- **contenttypes_roundtrip.** For a table with pairwise different keys (every table built by `Parse` / `Add` is one: Go maps):
    parsing the `Default` and `Override` lists `Marshal` writes gives a table that marshals to the same lists
    (`Marshal ∘ Parse ∘ Marshal = Marshal`) and answers every lookup as the original. -/
theorem contenttypes_roundtrip (c : CT) (h1 : (Vsix.keys c.byExt).Nodup) (h2 : (Vsix.keys c.byOvr).Nodup) :
    ctLists (Vsix.ctParse {} (ctLists c).1 (ctLists c).2) = ctLists c ∧
    (∀ k, Vsix.mget (Vsix.ctParse {} (ctLists c).1 (ctLists c).2).byExt k = Vsix.mget c.byExt k) ∧
    (∀ k, Vsix.mget (Vsix.ctParse {} (ctLists c).1 (ctLists c).2).byOvr k = Vsix.mget c.byOvr k) := by
  obtain ⟨e, e2⟩ := ctParse_lists c h1 h2
  refine ⟨e2, ?_, ?_⟩
  · intro k; rw [e]; exact mget_sortMap _ h1 k
  · intro k; rw [e]; exact mget_sortMap _ h2 k

example : (Vsix.keys (ctAdd (ctAdd {} nPng) nAppx).byExt).Nodup := by decide

/-- **xml_attr_escape_roundtrip.** What `encoding/xml` writes for an attribute value reads back as the value, for printable ASCII
    with TAB, LF and CR (the eight characters `EscapeString` replaces included). -/
theorem xml_attr_escape_roundtrip (s : Bytes) (h : asciiClean s) : unescAttr (escAttr s) = s :=
  unesc_esc s.length s (Nat.le_refl _) h

/-- the full statement: every value that is XML text (valid UTF-8 of XML characters) reads back; not proved beyond ASCII -/
def xml_attr_escape_roundtrip_full : Prop :=
  ∀ s : Bytes, escAttr s ≠ escAttr (s ++ [0]) → (∀ t, escAttr t = escAttr s → t = s) → unescAttr (escAttr s) = s

/-- the whole file: header, `Types` element, one element per entry.  Reading the bytes back needs an XML parser in the
    model; evaluated on every ct op instead (`rt=1`). -/
def contenttypes_roundtrip_bytes_full : Prop :=
  ∀ c c' : CT, (Vsix.keys c.byExt).Nodup → (Vsix.keys c.byOvr).Nodup → (Vsix.keys c'.byExt).Nodup → (Vsix.keys c'.byOvr).Nodup →
    (∀ e ∈ c.byExt ++ c.byOvr ++ c'.byExt ++ c'.byOvr, escAttr e.1 ≠ escAttr (e.1 ++ [0])) → ctSerialize c = ctSerialize c' → ctLists c = ctLists c'

set_option maxRecDepth 20000 in
/-- **contenttypes_unclean_key_not_roundtrip (the exception).** A key that is not XML text is written with U+FFFD in place of the
    offending byte: two different keys give the same file. -/
theorem contenttypes_unclean_key_not_roundtrip : escAttr [120, 1, 121] = escAttr [120, 239, 191, 189, 121] ∧
    ctSerialize ⟨[([120, 1, 121], [116])], []⟩ = ctSerialize ⟨[([120, 239, 191, 189, 121], [116])], []⟩ := by decide

end Relic.Props.C01

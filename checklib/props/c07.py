"""C07 — signatures are only issued under a certificate that matches the key
(lib/x509tools.SameKey, lib/certloader, token/filetoken, internal/signinit, lib/pkcs7 builder, lib/xmldsig)."""
TIE = "corr:keymatch"
TIE_THEOREM = ("Relic.Props.C07.emitted_leaf_matches_key / mismatch_is_error / builder_guard / xmldsig_guard / sameKey_sound "
               "(model Relic.Model.KeyMatch vs x509tools.SameKey, certloader.LoadX509KeyPair/LoadTokenCertificates/Chain, "
               "filetoken.GetKey, signinit.Init, pkcs7.SignatureBuilder.Sign, xmldsig.Sign/SignEnveloping)")
RULE = ("real keys generated per process (RSA-2048 x2, P-256 x2, P-384, P-521, the negated P-256 point, RSA same-N e=3, ed25519) and real "
        "X.509 certificates / PKCS#7 bundles / PKCS#12 files / OpenPGP entities built from the specs in each op. "
        "(a) SameKey on every ordered pair of 14 key values, public and via Public(); "
        "(b) exhaustive: 7 private keys x 9 leaf keys x every ordered selection of {leaf, intermediate, root} as certificate file, "
        "token-stored blob, file-over-blob, and LoadX509KeyPair, in PEM / PEM with foreign blocks / DER / PKCS#7 / mixed shapes; "
        "(c) seeded random sources (duplicates, self-signed leaves, strangers, missing/garbage/empty files, 0/1/2 PGP entities, armored or binary); "
        "(d) pkcs7 builder and xmldsig (enveloped, enveloping) guards in isolation: 8 keys x 9 leaf keys x 6 certificate orders x content/hash variants; "
        "(e) end to end: in-memory config with two keys + alias -> real file token (PEM key or PKCS#12) -> signinit.Init -> cat / cosign / pgp signer; the "
        "produced PKCS#7 / OCI manifest / PGP signature is re-parsed and its signature value verified. "
        "Non-trivial = distinct op that reaches a SameKey decision (model outcome ok or err mismatch, or a samekey op).")
ASSUMPTIONS = ["crypto/rsa, crypto/ecdsa, OpenPGP signing are sound: a signature made with a private key verifies under its public key (SigScheme.sound)",
               "no two ECDSA keys in play share an affine point across different curves (SameKey does not compare curves; hypothesis NoSharedPoint)",
               "crypto/x509, encoding/pem, go-pkcs12, go-crypto parse what was written: a certificate source is modelled by the list of certificates the parser yields",
               "hardware / cloud token back-ends return the right Public() for the key they sign with (only the file token is driven end to end)"]
TRUSTED = ["model Relic.Model.KeyMatch is hand-written; tied to the Go code by differential execution on every run",
           "verifhooks/hooks_verif.go re-exports internal/signinit.Init / InitKey unchanged",
           "signers other than cat, cosign, pgp are covered by the model's four signer kinds (which certificate list they hand to which guard, read from source), not executed here"]
UNPROVED = ["sameKey_sound_full"]
IMPL_PARALLEL = 16


def _certs(tok):
    """'L=spec,spec' or 'spec,spec' -> list of (id, subj, iss, key)"""
    if tok.startswith("L="):
        tok = tok[2:]
    if tok in ("-", "none", "missing", "garbage", ""):
        return []
    out = []
    for s in tok.split(","):
        i, su, iss, k = s.split(":")
        out.append((i, su, iss, k))
    return out


def _ents(tok):
    if not tok.startswith("P=") or tok == "P=-":
        return []
    return [tuple(s.split(":")) for s in tok[2:].split(",")]


def _kv(line):
    d = {}
    for w in line.split(" ")[1:]:
        if "=" in w:
            k, v = w.split("=", 1)
            d[k] = v
    return d


def _first(src):
    """(is a parsed non-empty list, first certificate)"""
    cs = _certs(src) if src.startswith("L=") else []
    return (cs[0] if cs else None)


def _expect(op):
    """spec-level reading of an op, independent of the Lean model:
    (key descriptor, deciding first certificate or None, all certificate specs, pgp entities, requested name or None)"""
    f = op.split()
    k = f[1]
    if k == "x509pair":
        return f[2], _first(f[3]), _certs(f[3]), [], None
    if k == "tokcert":
        src = f[3] if f[3] != "none" else f[4]
        return f[2], _first(src), _certs(f[3]) + _certs(f[4]), _ents(f[5]), None
    if k == "builder":
        cs = _certs(f[3])
        return f[2], (cs[0] if cs else None), cs, [], None
    if k == "xmlsign":
        cs = _certs(f[4])
        return f[3], (cs[0] if cs else None), cs, [], None
    if k == "e2e":
        req, tgt = f[3], f[4]
        name = req
        if req == "al":
            name = tgt if tgt in ("k0", "k1") else None
        if name not in ("k0", "k1"):
            return None, None, [], [], req
        e = f[5:9] if name == "k0" else f[9:13]
        key, p12, file, pg = e
        if file != "none":
            first = _first(file)
        elif p12 != "none":
            first = _certs(p12)[0]
        else:
            first = None
        return key, first, _certs(file) + _certs(p12), _ents(pg), req
    return None, None, [], [], None


def nontrivial(op, mres, tag):
    f = op.split()
    if f[1] in ("keylookup", "walias"):
        return True
    return f[1] == "samekey" or mres.startswith("ok") or mres == "err mismatch"


def branch(op, mres, tag):
    f = op.split()
    if f[1] in ("keylookup", "walias"):
        return f[1] + ":" + mres
    r = mres.split(" ")
    head = f[1] + (":" + f[2] if f[1] == "e2e" else "")
    if r[0] != "ok":
        return head + ":" + " ".join(r[:2])
    d = _kv(mres)
    if f[1] == "samekey":
        return head + ":" + r[1]
    extra = ""
    ch = d.get("chain", d.get("embedded", "-"))
    if d.get("leaf") == "none":
        extra = ":nocert"
    elif "," in ch:
        extra = ":chain"
    if d.get("pgp", "none") != "none":
        extra += ":pgp"
    return head + ":ok" + extra


def predicate(op, il, mres, tag):
    """the property itself, on the implementation's behaviour"""
    f = op.split()
    kind = f[1]
    if kind == "walias":
        d = dict(x.split("=", 1) for x in il.split(" ")[1:] if "=" in x)
        if il.startswith("ok pub=") and d.get("pub") != d.get("sig"):
            return ("Relic.Props.C07.emitted_leaf_matches_key", "the key that signs is the key whose public key the handle carries",
                    "worker RPC with key name %s: the handle carries the public key of %s, the signature was made by %s" % (f[2], d.get("pub"), d.get("sig")))
        return None
    if kind == "keylookup":
        if il.startswith("ok p=") and il.split()[1] not in ("p=1", "p=!"):
            return ("Relic.Props.C07.mismatch_is_error (key lookup; Relic.Props.C15.pinned_key_never_stale)", "key 1 or an error",
                    "a lookup pinned to key id 1 resolved to another key (%s): the signature would be made with a key other than the one "
                    "whose certificate is embedded" % il)
        return None
    if kind == "samekey":
        if il == "ok true":
            a, b = f[2][4:], f[3][4:]
            if a != b:
                pa, pb = a.split("."), b.split(".")
                if not (pa[0] == "E" and pb[0] == "E" and pa[2:] == pb[2:]):
                    return ("Relic.Props.C07.sameKey_sound", "ok false", "SameKey accepts two different keys outside the curve exception")
        return None
    key, first, specs, ents, req = _expect(op)
    if not il.startswith("ok"):
        return None
    d = _kv(il)
    bykey = {}
    for (i, su, iss, k) in specs:
        bykey.setdefault(i, k)
    thm = "Relic.Props.C07.emitted_leaf_matches_key"
    neg = "Relic.Props.C07.mismatch_is_error"
    if kind == "e2e" and key is None:
        return (neg, "err config", "a signature was issued for a name that resolves to no key")
    leaf = d.get("leaf")
    # mismatched configuration => error, no artefact
    if first is not None and first[3] != key:
        return (neg, "err mismatch", "deciding certificate %s carries %s, key is %s, yet the operation succeeded" % (first[0], first[3], key))
    if kind in ("builder", "xmlsign") and first is None:
        return (neg, "err mismatch", "signature issued without any certificate")
    if kind == "e2e" and f[2] in ("cat", "cosign") and first is None:
        return (neg, "err nocert", "X.509 signature issued without a certificate")
    if leaf is not None and leaf != "none":
        if bykey.get(leaf) != key:
            return (thm, "leaf public key = key", "leaf %s carries %s, key used is %s" % (leaf, bykey.get(leaf), key))
        if first is not None and leaf != first[0]:
            return (thm, "leaf = first certificate", "leaf %s is not the first certificate %s of the deciding source" % (leaf, first[0]))
        for fld in ("chain", "embedded", "certs"):
            if fld in d and d[fld].split(",")[0] != leaf:
                return (thm, fld + " begins with the leaf", "%s=%s does not begin with leaf %s" % (fld, d[fld], leaf))
    if "key" in d and d["key"] != key:
        return (thm, "key=" + key, "the bundle carries another private key: " + d["key"])
    if "sigkey" in d and d["sigkey"] != key:
        return (thm, "sigkey=" + key, "the signature value verifies under %s, not under the configured key" % d["sigkey"])
    if d.get("pgp", "none") != "none":
        ek = dict(ents).get(d["pgp"])
        if ek != key:
            return ("Relic.Props.C07.emitted_pgp_matches_key", "entity key = key", "PGP entity %s carries %s, key is %s" % (d["pgp"], ek, key))
    if kind == "e2e":
        if d.get("keyname") != req:
            return (thm, "keyname=" + str(req), "bundle labelled with another key name")
        if f[2] == "pgp" and d.get("pgp", "none") == "none":
            return ("Relic.Props.C07.emitted_pgp_matches_key", "a PGP entity", "PGP signature issued without a certificate")
    return None


def matches_known(k, op, il, mres, tag):
    return False



# ---- T-gen: the lock span of tokencache.(*Cache).GetKey (tools/extractlocks -> Relic/Generated/Locks.lean); the obligation
# heldThroughout (first statement takes c.mu, second defers its release, no other lock operation in the body) is what lets
# one call be one atomic step of the cache model, so that pinned_key_never_stale covers overlapping lookups
def generate(ctx):
    import os
    import runner as _r
    tool = _r.build_tool("extractlocks")
    gen = os.path.join(_r.LEAN, "Relic", "Generated", "Locks.lean")
    tmp = gen + ".tmp." + str(os.getpid())
    r = _r.sh([tool, _r.REPO, tmp])
    if r.returncode != 0 or not os.path.exists(tmp):
        raise _r.Broken("extractlocks failed on token/tokencache/cache.go", r.stdout[-2000:])
    new = open(tmp).read()
    old = open(gen).read() if os.path.exists(gen) else None
    if new != old:
        os.replace(tmp, gen)
    else:
        os.remove(tmp)
    return ["Relic.Props.C07.key_lookup_atomic_generated"]


# --- SCD ops (key lookup by configured id in token/scdtoken, signature vs. the public key GetKey returned): a further
# correspondence under the pseudo-property C07SCD, checklib/models/scd.py; theorems Relic.Props.C07.scd_signature_matches_key,
# scd_getkey_selects_configured, scd_getkey_total (F-SCD-1 repaired: scd_getkey_nil_deref_orig)
import composite as _composite, scd as _scd
UNPROVED = list(globals().get("UNPROVED", [])) + _scd.UNPROVED["C07"]
_gen_c07_scd = generate


def generate(ctx):
    return _gen_c07_scd(ctx) + _scd.generate(ctx)


def run(ctx):
    import runner as _r
    own, none = _composite.split_replay(ctx, ["scd"])
    cov, f, k = ({"evaluations": 0, "distinct_nontrivial": 0}, [], []) if none else \
        _r.correspondence("C07", own, __import__("props.c07", fromlist=["x"]))
    return _scd.second(ctx, "C07", cov, f, k)

/- helper lemmas for C12 -/
import Relic.Model.Binpatch
namespace Relic.Binpatch
open Relic

/-! ### well-formed (constructible) patch lists -/

theorem wfFrom_append (n pos : Nat) (xs ys : List Patch) :
    wfFrom n pos (xs ++ ys) = (wfFrom n pos xs && wfFrom n (endPos pos xs) ys) := by
  induction xs generalizing pos with
  | nil => simp [wfFrom, endPos]
  | cons p ps ih => simp [wfFrom, endPos, ih, Bool.and_assoc]

theorem endPos_append (pos : Nat) (xs ys : List Patch) :
    endPos pos (xs ++ ys) = endPos (endPos pos xs) ys := by
  induction xs generalizing pos with
  | nil => simp [endPos]
  | cons p ps ih => simp [endPos, ih]

theorem wfFrom_mono (n pos pos' : Nat) (ps : List Patch) (h : pos' ≤ pos) (w : wfFrom n pos ps = true) :
    wfFrom n pos' ps = true := by
  cases ps with
  | nil => rfl
  | cons p ps =>
    simp [wfFrom] at w ⊢
    exact ⟨⟨by omega, w.1.2⟩, w.2⟩

theorem endPos_le (n pos : Nat) (ps : List Patch) (hp : pos ≤ n) (w : wfFrom n pos ps = true) :
    endPos pos ps ≤ n ∧ pos ≤ endPos pos ps := by
  induction ps generalizing pos with
  | nil => simp [endPos]; exact hp
  | cons p ps ih =>
    simp [wfFrom] at w
    have := ih (p.off + p.old) w.1.2 w.2
    simp [endPos]; omega

/-! ### splice algebra -/

theorem splice_length (f : Bytes) (off old : Nat) (b : Bytes) :
    (splice f off old b).length = min off f.length + b.length + (f.length - (off + old)) := by
  simp [splice, List.length_take, List.length_drop]; omega

theorem splice_splice_adj (f : Bytes) (off o1 o2 : Nat) (b1 b2 : Bytes) (h : off + o1 ≤ f.length) :
    splice (splice f (off + o1) o2 b2) off o1 b1 = splice f off (o1 + o2) (b1 ++ b2) := by
  unfold splice
  have h1 : (List.take (off + o1) f).length = off + o1 := by simp [List.length_take]; omega
  have e1 : List.take off (List.take (off + o1) f ++ b2 ++ List.drop (off + o1 + o2) f) = List.take off f := by
    rw [List.append_assoc, List.take_append, h1, List.take_take]
    have : off - (off + o1) = 0 := by omega
    simp [this, Nat.min_eq_left (Nat.le_add_right off o1)]
  have e2 : List.drop (off + o1) (List.take (off + o1) f ++ b2 ++ List.drop (off + o1 + o2) f)
      = b2 ++ List.drop (off + o1 + o2) f := by
    rw [List.append_assoc, List.drop_append, h1]
    simp
  rw [e1, e2]
  simp [List.append_assoc, Nat.add_assoc]

theorem sem_append (f : Bytes) (ps qs : List Patch) : sem f (ps ++ qs) = sem (sem f qs) ps := by
  simp [sem, List.foldr_append]

theorem sem_cons (f : Bytes) (p : Patch) (ps : List Patch) :
    sem f (p :: ps) = splice (sem f ps) p.off p.old p.blob := rfl

/-- later patches do not shorten the file below the start of the first of them -/
theorem le_length_sem (f : Bytes) (k : Nat) (ps : List Patch) (hk : k ≤ f.length)
    (w : wfFrom f.length k ps = true) : k ≤ (sem f ps).length := by
  induction ps generalizing k with
  | nil => simpa [sem] using hk
  | cons p ps ih =>
    simp [wfFrom] at w
    have h2 := ih (p.off + p.old) w.1.2 w.2
    rw [sem_cons, splice_length]
    omega

/-! ### `Add` preserves meaning -/

theorem sem_addSplit (M : Nat) (f : Bytes) (off old : Nat) (blob : Bytes) (h : off + old ≤ f.length) :
    sem f (addSplit M off old blob) = splice f off old blob := by
  induction old using Nat.strongRecOn generalizing off with
  | _ old ih =>
    rw [addSplit]
    split
    · rename_i hc
      rw [sem_cons, ih (old - M) (by omega) (off + M) (by omega)]
      have := splice_splice_adj f off M (old - M) [] blob (by omega)
      simp only [List.nil_append] at this
      rw [this]
      congr 1; omega
    · simp [sem]

theorem sem_add (M : Nat) (f : Bytes) (ps : List Patch) (c : Patch) (h : c.off + c.old ≤ f.length) :
    sem f (add M ps c) = sem (splice f c.off c.old c.blob) ps := by
  rcases List.eq_nil_or_concat ps with rfl | ⟨init, l, rfl⟩
  · have := sem_addSplit M f c.off c.old c.blob h
    simpa [add, sem] using this
  · simp only [List.concat_eq_append]
    unfold add
    simp only [List.getLast?_concat, List.dropLast_concat]
    split
    · rename_i hc
      rw [sem_append, sem_append]
      congr 1
      simp only [sem, List.foldr]
      rw [hc.1, splice_splice_adj f l.off l.old c.old l.blob c.blob (by omega)]
    · rw [sem_append, sem_addSplit M f _ _ _ h]

theorem sem_foldl_add (M : Nat) (f : Bytes) (pos : Nat) (cs acc : List Patch)
    (w : wfFrom f.length pos cs = true) :
    sem f (cs.foldl (add M) acc) = sem (sem f cs) acc := by
  induction cs generalizing pos acc with
  | nil => simp [sem]
  | cons c cs ih =>
    simp [wfFrom] at w
    simp only [List.foldl_cons]
    rw [ih (c.off + c.old) (add M acc c) w.2]
    rw [sem_add M (sem f cs) acc c (le_length_sem f _ cs w.1.2 w.2)]
    rfl

theorem sem_build (M : Nat) (f : Bytes) (cs : List Patch) (w : wfFrom f.length 0 cs = true) :
    sem f (build M cs) = sem f cs := by
  unfold build
  rw [sem_foldl_add M f 0 cs [] w]
  simp [sem]

/-! ### `Add` preserves well-formedness -/

theorem wf_addSplit (M n pos off old : Nat) (blob : Bytes) (h1 : pos ≤ off) (h2 : off + old ≤ n) :
    wfFrom n pos (addSplit M off old blob) = true ∧ endPos pos (addSplit M off old blob) = off + old := by
  induction old using Nat.strongRecOn generalizing pos off with
  | _ old ih =>
    rw [addSplit]
    split
    · rename_i hc
      have := ih (old - M) (by omega) (off + M) (off + M) (Nat.le_refl _) (by omega)
      simp [wfFrom, endPos, this.1, this.2]
      omega
    · simp [wfFrom, endPos]; omega

theorem endPos_concat (pos : Nat) (xs : List Patch) (l : Patch) : endPos pos (xs ++ [l]) = l.off + l.old := by
  rw [endPos_append]; simp [endPos]

theorem wf_add (M n : Nat) (acc : List Patch) (c : Patch) (w : wfFrom n 0 acc = true)
    (h1 : endPos 0 acc ≤ c.off) (h2 : c.off + c.old ≤ n) :
    wfFrom n 0 (add M acc c) = true ∧ endPos 0 (add M acc c) = c.off + c.old := by
  rcases List.eq_nil_or_concat acc with rfl | ⟨init, l, rfl⟩
  · simp only [add, List.getLast?_nil, List.nil_append]
    exact wf_addSplit M n 0 c.off c.old c.blob (Nat.zero_le _) h2
  · simp only [List.concat_eq_append] at *
    unfold add
    simp only [List.getLast?_concat, List.dropLast_concat]
    rw [wfFrom_append] at w
    simp [wfFrom] at w
    split
    · rename_i hc
      rw [wfFrom_append, endPos_concat]
      simp [wfFrom, w.1, w.2.1]
      omega
    · rw [endPos_concat] at h1
      have := wf_addSplit M n (l.off + l.old) c.off c.old c.blob h1 h2
      rw [wfFrom_append, wfFrom_append, endPos_append (xs := init ++ [l]), endPos_concat]
      simp only [endPos, wfFrom]
      simp [w.1, w.2.1, w.2.2, this.1, this.2]

theorem wf_foldl_add (M n : Nat) (cs acc : List Patch) (w : wfFrom n 0 acc = true)
    (wc : wfFrom n (endPos 0 acc) cs = true) : wfFrom n 0 (cs.foldl (add M) acc) = true := by
  induction cs generalizing acc with
  | nil => simpa using w
  | cons c cs ih =>
    simp [wfFrom] at wc
    have := wf_add M n acc c w wc.1.1 wc.1.2
    simp only [List.foldl_cons]
    apply ih _ this.1
    rw [this.2]; exact wc.2

theorem wf_build (M n : Nat) (cs : List Patch) (w : wfFrom n 0 cs = true) : wfFrom n 0 (build M cs) = true :=
  wf_foldl_add M n cs [] rfl (by simpa [endPos] using w)

/-! ### the rewrite loop computes the reference -/

theorem rewriteLoop_spec (f : Bytes) (pos : Nat) (ps : List Patch) (hp : pos ≤ f.length)
    (w : wfFrom f.length pos ps = true) :
    ∃ r, rewriteLoop f pos ps = .ok r ∧ f.take pos ++ r = sem f ps := by
  induction ps generalizing pos with
  | nil => exact ⟨f.drop pos, rfl, by simp [sem]⟩
  | cons p ps ih =>
    simp [wfFrom] at w
    obtain ⟨r', hr, hs⟩ := ih (p.off + p.old) w.1.2 w.2
    refine ⟨(f.drop pos).take (p.off - pos) ++ p.blob ++ r', ?_, ?_⟩
    · have a : ¬ p.off < pos := by omega
      have b : ¬ (pos < p.off ∧ f.length < p.off) := by omega
      simp [rewriteLoop, a, b, hr]
    · rw [sem_cons, ← hs]
      unfold splice
      have h1 : (List.take (p.off + p.old) f).length = p.off + p.old := by simp [List.length_take]; omega
      have e1 : List.take p.off (List.take (p.off + p.old) f ++ r') = List.take p.off f := by
        rw [List.take_append, h1, List.take_take]
        have : p.off - (p.off + p.old) = 0 := by omega
        simp [this, Nat.min_eq_left (Nat.le_add_right p.off p.old)]
      have e2 : List.drop (p.off + p.old) (List.take (p.off + p.old) f ++ r') = r' := by
        rw [List.drop_append, h1]; simp
      rw [e1, e2]
      have e3 : List.take pos f ++ List.take (p.off - pos) (List.drop pos f) = List.take p.off f := by
        rw [List.take_drop]
        have : pos + (p.off - pos) = p.off := by omega
        rw [this]
        conv => rhs; rw [← List.take_append_drop pos (List.take p.off f)]
        rw [List.take_take, Nat.min_eq_left w.1.1]
      rw [← e3]; simp [List.append_assoc]

end Relic.Binpatch
